//! C18 — live list and DP scanner converge to the stations actually on the bus (world W5).

use crate::bus::BusSim;
use crate::engine::*;
use crate::refcodec as rc;
use profirust::dp::scan::{DpScanEvent, DpScanner};
use profirust::fdl::live_list::{LiveList, StationEvent};
use profirust::fdl::{FdlActiveStation, FdlApplication, HighPrioOnly, ParametersBuilder, Telegram, TelegramTx};
use profirust::time::Instant;
use serde_json::{json, Value};
use std::sync::Arc;

#[derive(Clone)]
pub enum App {
    Live(LiveList),
    Scan(DpScanner),
}

#[derive(Clone, Debug)]
pub struct C18Cfg {
    pub scanner_kind: u8, // 0 live list, 1 DP scanner
    pub ts: u8,
    pub tracked: Vec<u8>,
    pub sweeps: u32,
    pub max_losses: u8,
    /// idents of the tracked slaves (DP scanner)
    pub idents: Vec<u16>,
}

/// answer of the environment at the probe of a tracked address
#[derive(Clone, Copy, Debug, PartialEq, Eq)]
pub enum Ans {
    Silent,
    Answers,
    ReplyLost,
    /// DP scanner only: one of 4 invalid replies
    Invalid(u8),
}

pub const ANSWERS: [Ans; 7] = [Ans::Silent, Ans::Answers, Ans::ReplyLost, Ans::Invalid(0), Ans::Invalid(1), Ans::Invalid(2), Ans::Invalid(3)];

#[derive(Clone)]
pub struct C18State {
    pub cfg: Arc<C18Cfg>,
    pub fdl: Arc<FdlActiveStation>,
    pub app: App,
    /// reference: membership as the application must see it = "answered validly at the last probe"
    pub member: Vec<bool>,
    pub last_ident: Vec<Option<u16>>,
    pub losses: u8,
    pub probes: u64,
    pub next_expected: u8,
    pub sweep: u32,
    pub history: Vec<u8>,
    pub dead: bool,
    pub unchanged_sweeps: u32,
    pub changed_this_sweep: bool,
    /// 0: the application is always asked with HighPrioOnly::No; k = 1, 2: the k-th question of every
    /// probe round comes with HighPrioOnly::Yes (a late token). Declining then is fine; the sweep must
    /// not lose its place over it (found by a seeded change).
    pub hp_at: u8,
}

fn replay_json(s: &C18State) -> Value {
    if s.cfg.sweeps == u32::MAX {
        // the linear endurance run is deterministic: kind, address and the sweep it got to identify it
        return json!({"world": "w5-endurance", "kind": s.cfg.scanner_kind, "ts": s.cfg.ts, "sweeps": s.sweep + 2});
    }
    json!({"world": "w5", "kind": s.cfg.scanner_kind, "ts": s.cfg.ts, "tracked": s.cfg.tracked, "sweeps": s.cfg.sweeps, "max_losses": s.cfg.max_losses, "idents": s.cfg.idents, "answers": s.history})
}

impl C18State {
    pub fn new(cfg: &Arc<C18Cfg>) -> Self {
        let fdl = FdlActiveStation::new(ParametersBuilder::new(cfg.ts, profirust::Baudrate::B19200).build());
        let n = cfg.tracked.len();
        C18State {
            cfg: cfg.clone(),
            fdl: Arc::new(fdl),
            app: if cfg.scanner_kind == 0 { App::Live(LiveList::new()) } else { App::Scan(DpScanner::new()) },
            member: vec![false; n],
            last_ident: vec![None; n],
            losses: 0,
            probes: 0,
            next_expected: 0,
            sweep: 0,
            history: vec![],
            dead: false,
            unchanged_sweeps: 0,
            changed_this_sweep: false,
            hp_at: 0,
        }
    }

    fn fail(&mut self, sig: &str, detail: String) {
        ctx().violation(format!("c18.{}.{sig}", if self.cfg.scanner_kind == 0 { "livelist" } else { "dpscanner" }), format!("{detail} [TS={} tracked={:?} answers so far {:?}]", self.cfg.ts, self.cfg.tracked, self.history), replay_json(self), self.history.len() as u64);
        self.dead = true;
    }

    /// Ask the application for its next probe; handles the "end of cycle" declines. Returns the probed address.
    fn next_probe(&mut self) -> Option<u8> {
        let now = Instant::from_micros(1000 + self.probes as i64 * 10);
        for k in 0..4u8 {
            let mut buf = [0u8; 64];
            let hp = if self.hp_at != 0 && k + 1 == self.hp_at { HighPrioOnly::Yes } else { HighPrioOnly::No };
            let r = match &mut self.app {
                App::Live(l) => catch(|| l.transmit_telegram(now, &self.fdl, TelegramTx::new(&mut buf), hp)),
                App::Scan(s) => catch(|| s.transmit_telegram(now, &self.fdl, TelegramTx::new(&mut buf), hp)),
            };
            let r = match r {
                Ok(r) => r,
                Err(p) => {
                    self.fail("panic", format!("transmit_telegram: {}", p.msg));
                    return None;
                }
            };
            if let Some(tr) = r {
                let f = match rc::decode(&buf[..tr.bytes_sent()]) {
                    rc::RDec::Frame(f, _) => f,
                    _ => {
                        self.fail("undecodable_probe", hex(&buf[..tr.bytes_sent()]));
                        return None;
                    }
                };
                let da = f.da().unwrap();
                // probes: status request (live list) / Slave_Diag (scanner), from TS, expecting a reply
                let shape_ok = match (&self.app, &f) {
                    (App::Live(_), f) => f.is_fdl_status_req() && f.sa() == Some(self.cfg.ts),
                    (App::Scan(_), rc::RFrame::Data { dsap: Some(60), ssap: Some(62), sa, du, .. }) => *sa == self.cfg.ts && du.is_empty(),
                    _ => false,
                };
                if !shape_ok || tr.expects_reply() != Some(da) {
                    self.fail("probe_shape", format!("probe {} expects_reply={:?}", f.short(), tr.expects_reply()));
                    return None;
                }
                if da > 125 {
                    self.fail("probes_address_above_125", format!("probe to #{da}"));
                    return None;
                }
                if da != self.next_expected {
                    self.fail("probe_order", format!("probed #{da}, expected #{} (addresses must be swept 0..125 in order)", self.next_expected));
                    return None;
                }
                self.next_expected = if da == 125 { 0 } else { da + 1 };
                self.probes += 1;
                return Some(da);
            }
        }
        self.fail("never_probes", "four consecutive declines".into());
        None
    }

    fn deliver(&mut self, da: u8, ans: Ans, tracked_idx: Option<usize>) {
        let now = Instant::from_micros(1005 + self.probes as i64 * 10);
        let ts = self.cfg.ts;
        // the reply the environment puts on the wire (None = the application sees a time-out)
        let reply: Option<rc::RFrame> = match (&self.app, ans) {
            (_, Ans::Silent) | (_, Ans::ReplyLost) => None,
            (App::Live(_), Ans::Answers) => Some(rc::status_resp(ts, da, if da % 2 == 0 { 0 } else { 3 })),
            // live list: the four "Invalid" slots are further VALID answers — the other station types, and
            // status responses whose status nibble is not OK (RS 'service not activated', DH); any response
            // from the probed address proves that the station is there
            (App::Live(_), Ans::Invalid(k)) => Some(match k {
                0 => rc::status_resp(ts, da, 1),
                1 => rc::status_resp(ts, da, 2),
                2 => rc::RFrame::Data { da: ts, sa: da, dsap: None, ssap: None, fc: ((da & 3) << 4) | 0x03, du: vec![] },
                _ => rc::RFrame::Data { da: ts, sa: da, dsap: None, ssap: None, fc: 0x30 | 0x0A, du: vec![] },
            }),
            (App::Scan(_), Ans::Answers) => {
                let id = self.cfg.idents[tracked_idx.unwrap() % self.cfg.idents.len()];
                Some(rc::RFrame::Data { da: ts, sa: da, dsap: Some(62), ssap: Some(60), fc: 0x08, du: vec![0x02, 0x05, 0x00, 0xFF, (id >> 8) as u8, id as u8] })
            }
            (App::Scan(_), Ans::Invalid(k)) => Some(match k {
                0 => rc::RFrame::Sc,
                1 => rc::RFrame::Data { da: ts, sa: da, dsap: Some(62), ssap: Some(60), fc: 0x08, du: vec![0x02, 0x05, 0x00] },
                2 => rc::RFrame::Data { da: ts, sa: da, dsap: Some(61), ssap: Some(60), fc: 0x08, du: vec![0x02, 0x05, 0x00, 0xFF, 0, 1] },
                _ => rc::RFrame::Data { da: ts, sa: da, dsap: None, ssap: None, fc: 0x03, du: vec![] },
            }),
        };
        let valid_answer = matches!(ans, Ans::Answers) || matches!((&self.app, ans), (App::Live(_), Ans::Invalid(_)));
        let sent_state: Option<u8> = match &reply {
            Some(rc::RFrame::Data { fc, .. }) => Some((fc >> 4) & 3),
            _ => None,
        };
        let r = match &reply {
            Some(f) => {
                let bytes = rc::encode(f);
                match &mut self.app {
                    App::Live(l) => catch(|| l.receive_reply(now, &self.fdl, da, Telegram::deserialize(&bytes).unwrap().unwrap().0)),
                    App::Scan(s) => catch(|| s.receive_reply(now, &self.fdl, da, Telegram::deserialize(&bytes).unwrap().unwrap().0)),
                }
            }
            None => match &mut self.app {
                App::Live(l) => catch(|| l.handle_timeout(now, &self.fdl, da)),
                App::Scan(s) => catch(|| s.handle_timeout(now, &self.fdl, da)),
            },
        };
        if let Err(p) = r {
            self.fail("panic", format!("reply handling for #{da}: {}", p.msg));
            return;
        }
        // events, collected after every callback
        #[derive(Debug, PartialEq)]
        enum Ev {
            Found(u8, Option<u16>),
            Lost(u8),
            Requery(u8),
        }
        let ev: Option<Ev> = match &mut self.app {
            App::Live(l) => l.take_last_event().map(|e| match e {
                // (the station type is carried in the ident slot for the comparison below)
                StationEvent::Discovered(d) => Ev::Found(d.address, Some(d.state as u16)),
                StationEvent::Lost(a) => Ev::Lost(a),
            }),
            App::Scan(s) => s.take_last_event().map(|e| match e {
                DpScanEvent::PeripheralFound(d) => Ev::Found(d.address, Some(d.ident)),
                DpScanEvent::PeripheralLost(a) => Ev::Lost(a),
                DpScanEvent::PeripheralRequery(d) => Ev::Requery(d.address),
            }),
        };
        // reference model: what must have been observed
        let was_member = tracked_idx.map(|i| self.member[i]).unwrap_or(false);
        // For the DP scanner an invalid reply is neither an answer nor silence: membership must not change.
        let is_neutral = matches!((&self.app, ans), (App::Scan(_), Ans::Invalid(_)));
        let expect: Option<Ev> = if is_neutral {
            None
        } else if !was_member && valid_answer {
            Some(Ev::Found(da, None))
        } else if was_member && !valid_answer {
            Some(Ev::Lost(da))
        } else {
            None
        };
        let ok = match (&ev, &expect) {
            (None, None) => true,
            (Some(Ev::Requery(a)), None) => *a == da && was_member && valid_answer,
            (Some(Ev::Found(a, id)), Some(Ev::Found(b, _))) => {
                a == b && match (&self.app, id) {
                    (App::Scan(_), Some(id)) => *id == self.cfg.idents[tracked_idx.unwrap() % self.cfg.idents.len()],
                    // live list: the reported station type is the one in the reply
                    (App::Live(_), Some(st)) => Some(*st as u8) == sent_state,
                    _ => true,
                }
            }
            (Some(Ev::Lost(a)), Some(Ev::Lost(b))) => a == b,
            _ => false,
        };
        if !ok && da != ts {
            self.fail("event", format!("probe of #{da} answered {:?}: event {:?}, expected {:?} (was member: {was_member})", ans, ev, expect));
            return;
        }
        if let Some(i) = tracked_idx {
            if !is_neutral {
                if self.member[i] != valid_answer {
                    self.changed_this_sweep = true;
                }
                self.member[i] = valid_answer;
            }
        }
        // membership accessor (live list): = answered at the last probe
        if let App::Live(l) = &self.app {
            let listed: Vec<u8> = l.iter_stations().filter(|a| *a != ts).collect();
            let mut expect: Vec<u8> = self.cfg.tracked.iter().enumerate().filter(|(i, a)| self.member[*i] && **a != ts).map(|(_, a)| *a).collect();
            expect.sort();
            if listed != expect {
                self.fail("membership", format!("iter_stations() = {listed:?}, reference = {expect:?}"));
            }
        }
    }

    /// Run the silent probes up to the next tracked address; returns its index.
    pub fn advance_to_tracked(&mut self) -> Option<(u8, usize)> {
        loop {
            if self.dead {
                return None;
            }
            let da = self.next_probe()?;
            if da == 0 && self.probes > 1 {
                self.sweep += 1;
                if self.changed_this_sweep {
                    self.unchanged_sweeps = 0;
                } else {
                    self.unchanged_sweeps += 1;
                }
                self.changed_this_sweep = false;
            }
            if let Some(i) = self.cfg.tracked.iter().position(|a| *a == da) {
                return Some((da, i));
            }
            self.deliver(da, Ans::Silent, None);
        }
    }

    pub fn fingerprint(&self) -> u64 {
        let app = match &self.app {
            App::Live(l) => strip_addrs(format!("{:?}", l)),
            App::Scan(s) => strip_addrs(format!("{:?}", s)),
        };
        fnv64(format!("{app}|{:?}|{}|{}|{}|{}|{}", self.member, self.losses, self.next_expected, self.sweep, self.dead, self.unchanged_sweeps).as_bytes())
    }
}

pub struct C18World {
    pub s: C18State,
    pub pending: Option<(u8, usize)>,
    pub fp: u64,
}

impl C18World {
    pub fn init(cfg: &Arc<C18Cfg>) -> Self {
        let mut s = C18State::new(cfg);
        let pending = s.advance_to_tracked();
        let fp = s.fingerprint();
        C18World { s, pending, fp }
    }
}

impl World for C18World {
    fn n_actions(&self) -> usize {
        if self.s.dead || self.pending.is_none() || self.s.sweep >= self.s.cfg.sweeps {
            0
        } else {
            21
        }
    }
    fn step(&self, a: usize, _p: &[u16]) -> Option<Self> {
        let ans = ANSWERS[a % 7];
        let (da, idx) = self.pending?;
        // (a responder at the scanning station's OWN address — an address collision — is part of "all
        // populations": what the application reports for that address is not judged, "other than the scanning
        // station", but the sweep has to go on; found by a seeded change that got stuck there)
        if ans == Ans::ReplyLost && self.s.losses >= self.s.cfg.max_losses {
            return None;
        }
        let mut s = self.s.clone();
        s.history.push(a as u8);
        s.hp_at = (a / 7) as u8;
        if ans == Ans::ReplyLost {
            s.losses += 1;
        }
        s.deliver(da, ans, Some(idx));
        if s.dead {
            return None;
        }
        let pending = s.advance_to_tracked();
        if s.dead {
            return None;
        }
        let fp = s.fingerprint();
        Some(C18World { s, pending, fp })
    }
    fn fingerprint(&self) -> u64 {
        self.fp
    }
    fn describe_action(&self, a: usize) -> String {
        format!("{:?}{}", ANSWERS[a % 7], ["", " then asked with HighPrioOnly::Yes first", " then asked with HighPrioOnly::Yes second"][a / 7])
    }
}

/// Bind the direct drive to the real FDL: a real station alone on BusSim runs the application; the
/// environment answers probes of the given population.
pub fn under_real_fdl(kind: u8, ts: u8, population: &[u8], ttr: Option<u32>) -> Result<Vec<u8>, String> {
    let mut b = ParametersBuilder::new(ts, profirust::Baudrate::B500000);
    b.slot_bits(200).highest_station_address(8.max(ts + 1));
    if let Some(t) = ttr {
        // a target rotation time that every rotation exceeds: the application is asked with HighPrioOnly::Yes
        b.token_rotation_bits(t);
    }
    let params = b.build();
    let slot_us = params.slot_time().total_micros() as i64;
    let mut fdl = FdlActiveStation::new(params);
    let mut bus = BusSim::new(500000, 2);
    bus.retire_port(1);
    fdl.set_online();
    let mut live = LiveList::new();
    let mut scan = DpScanner::new();
    let mut now = 0i64;
    let p = slot_us / 8;
    let mut seen = 0usize;
    let mut probes = 0u32;
    let mut found: Vec<u8> = vec![];
    let horizon = slot_us * (40 + 3 * 126 * 3);
    while now < horizon {
        now += p;
        let t = Instant::from_micros(now);
        let r = catch(|| {
            let mut port = bus.port(0);
            if kind == 0 {
                fdl.poll(t, &mut port, &mut live)
            } else {
                fdl.poll(t, &mut port, &mut scan)
            }
        });
        if let Err(pn) = r {
            return Err(format!("panic: {}", pn.msg));
        }
        if kind == 1 {
            if let Some(DpScanEvent::PeripheralFound(d)) = scan.take_last_event() {
                found.push(d.address);
            }
        } else {
            let _ = live.take_last_event();
        }
        while seen < bus.trace.len() {
            let tx = bus.trace[seen].clone();
            seen += 1;
            if tx.sender != 0 {
                continue;
            }
            if let rc::RDec::Frame(f, _) = rc::decode(&tx.bytes) {
                if f.req_expects_reply() {
                    probes += 1;
                    let da = f.da().unwrap();
                    if population.contains(&da) && da != ts {
                        let resp = if f.is_fdl_status_req() {
                            rc::status_resp(ts, da, 0)
                        } else {
                            rc::RFrame::Data { da: ts, sa: da, dsap: Some(62), ssap: Some(60), fc: 0x08, du: vec![0x02, 0x05, 0, 0xFF, 0x12, da] }
                        };
                        let at = bus.us_ceil(tx.end + 11 * crate::bus::BIT) + 1;
                        bus.transmit(1, at, &rc::encode(&resp));
                        seen = bus.trace.len();
                    }
                }
            }
        }
        if bus.trace.len() > 2000 {
            bus.trace.clear();
            seen = 0;
        }
        if probes > 126 * 2 + 20 {
            break;
        }
    }
    if probes < 126 * 2 {
        return Err(format!("only {probes} probes within the horizon"));
    }
    if kind == 0 {
        Ok(live.iter_stations().collect())
    } else {
        found.sort();
        found.dedup();
        Ok(found)
    }
}

/// One linear run of `target` sweeps (see run()); returns the final state and the number of probes answered.
pub fn endurance(kind: u8, ts: u8, target: u32) -> (C18State, u64) {
    let cfg = Arc::new(C18Cfg { scanner_kind: kind, ts, tracked: vec![1, 62, 125], sweeps: u32::MAX, max_losses: 0, idents: vec![0x1337, 0x0001, 0xFFFF] });
    let mut s = C18State::new(&cfg);
    let mut n = 0u64;
    while s.sweep < target && !s.dead {
        let (da, idx) = match s.advance_to_tracked() {
            Some(x) => x,
            None => break,
        };
        let ans = if ((s.sweep / 7) as usize + idx) % 2 == 0 { Ans::Answers } else { Ans::Silent };
        s.hp_at = ((s.sweep + idx as u32) % 3) as u8;
        s.history.push(if ans == Ans::Answers { 1 } else { 0 });
        if s.history.len() > 64 {
            s.history.drain(..32);
        }
        s.deliver(da, ans, Some(idx));
        n += 1;
    }
    (s, n)
}

pub fn run(tier: Tier) -> ! {
    let c = ctx();
    let mut states = 0u64;
    let mut trans = 0u64;
    let mut validated = 0u64;
    let mut per_world = vec![];
    let mut caps = vec![];
    for kind in [0u8, 1] {
        for ts in [0u8, 7, 125] {
            let mut tracked = vec![0u8, ts, if ts < 125 { ts + 1 } else { 1 }, 62, 125];
            tracked.extend_from_slice(&[2, 124]);
            if tier == Tier::Thorough {
                tracked.extend_from_slice(&[63, 126 - 2]);
                tracked.push(if ts >= 1 { ts - 1 } else { 100 });
            }
            tracked.sort();
            tracked.dedup();
            let cfg = Arc::new(C18Cfg { scanner_kind: kind, ts, tracked, sweeps: tier.pick(4, 5), max_losses: tier.pick(2, 3), idents: vec![0x1337, 0x0001, 0xFFFF] });
            let st = bfs(vec![C18World::init(&cfg)], &BfsOpts { max_depth: 80, max_states: 3_000_000, max_secs: tier.pick(120.0, 3000.0) }, |_, nodes| {
                for n in nodes {
                    // convergence: after two sweeps without change the live list equals the answering set
                    if n.w.s.unchanged_sweeps >= 2 {
                        ctx().witness("c18_stable_two_sweeps");
                    }
                    if n.w.s.member.iter().any(|m| *m) {
                        ctx().witness("c18_member_present");
                    }
                }
            });
            let c2 = cfg.clone();
            validated += validate_paths(move |_| C18World::init(&c2), &st.sample_paths);
            states += st.states;
            trans += st.transitions;
            if let Some(cap) = &st.capped {
                caps.push(format!("kind{kind} TS{ts}: {cap}"));
            }
            per_world.push(json!({"kind": if kind == 0 { "LiveList" } else { "DpScanner" }, "ts": ts, "states": st.states, "transitions": st.transitions, "depth": st.depth_completed, "closed": st.closed}));
        }
    }
    // binding to the real FDL calling pattern
    let pops: Vec<Vec<u8>> = vec![vec![], vec![3], vec![0, 5, 62, 125]];
    // endurance: one linear run of 600 (thorough 1200) sweeps = 75 000 (150 000) probes per application, the
    // tracked stations coming and going every few sweeps — past the wrap of any 8- or 16-bit counter of probes
    for kind in [0u8, 1] {
        for ts in [0u8, 7] {
            let target = tier.pick(600u32, 1200);
            let (s, n) = endurance(kind, ts, target);
            trans += n;
            if s.sweep >= target && !s.dead {
                c.witness("c18_endurance_run");
            }
        }
    }
    for kind in [0u8, 1] {
        for (pop, ttr) in pops.iter().flat_map(|p| [(p, None), (p, Some(256u32))]) {
            match under_real_fdl(kind, 2, pop, ttr) {
                Ok(list) => {
                    let mut expect = pop.clone();
                    expect.sort();
                    if list != expect {
                        c.violation("c18.under_fdl.population", format!("kind {kind} TTR {ttr:?}: population {expect:?} but the application reports {list:?}"), json!({"world":"w5-fdl","kind":kind,"population":pop,"ttr":ttr}), pop.len() as u64);
                    } else {
                        c.witness("c18_under_real_fdl_ok");
                    }
                }
                Err(e) => {
                    c.violation("c18.under_fdl.error", e, json!({"world":"w5-fdl","kind":kind,"population":pop,"ttr":ttr}), pop.len() as u64);
                }
            }
        }
    }
    let mut ev = Evidence::default();
    ev.level = "model_checking";
    ev.states = states;
    ev.transitions = trans;
    ev.traces_validated = validated;
    ev.evaluations = trans;
    ev.distinct_nontrivial = states;
    ev.rule = "BFS over (real LiveList / DpScanner state, reference population, loss budget, sweep counter); one transition = the environment's answer at the probe of a tracked address (answers / silent / reply lost / 4 invalid diagnostics replies), untracked addresses are probed and silent in between; deduplicated on a canonical fingerprint".into();
    ev.samples = vec![json!({"kind":"LiveList","ts":7,"tracked":[0,7,8,62,125],"answers":["Answers","Silent","ReplyLost","Answers"]})];
    ev.exhaustive = caps.is_empty();
    ev.caps_hit = caps;
    ev.bounds = json!({"scanner_addresses": [0,7,125], "tracked_addresses": tier.pick("{0, 2, TS, TS+1, 62, 124, 125}", "{0, 2, TS-1, TS, TS+1, 62, 63, 124, 125}"), "sweeps": tier.pick(4,5), "max_lost_replies": tier.pick(2,3)});
    ev.distinct_outcomes = states;
    ev.extra.insert("per_world".into(), json!(per_world));
    ev.required_witnesses = vec!["c18_stable_two_sweeps", "c18_member_present", "c18_under_real_fdl_ok", "c18_endurance_run"];
    ev.assumptions.push("a peer answering an FDL status request with SC is non-conforming and outside the alphabet (DESIGN F16)".into());
    finish(ev)
}

pub fn replay(v: &Value) {
    let r = &v["replay"];
    if r["world"] == "w5-endurance" {
        let (s, n) = endurance(r["kind"].as_u64().unwrap() as u8, r["ts"].as_u64().unwrap() as u8, r["sweeps"].as_u64().unwrap() as u32);
        println!("endurance run: {n} tracked probes answered, sweep {}, ended by a violation: {}", s.sweep, s.dead);
        return;
    }
    if r["world"] == "w5-fdl" {
        let pop: Vec<u8> = r["population"].as_array().unwrap().iter().map(|x| x.as_u64().unwrap() as u8).collect();
        println!("{:?}", under_real_fdl(r["kind"].as_u64().unwrap() as u8, 2, &pop, r["ttr"].as_u64().map(|x| x as u32)));
        return;
    }
    let cfg = Arc::new(C18Cfg {
        scanner_kind: r["kind"].as_u64().unwrap() as u8,
        ts: r["ts"].as_u64().unwrap() as u8,
        tracked: r["tracked"].as_array().unwrap().iter().map(|x| x.as_u64().unwrap() as u8).collect(),
        sweeps: r["sweeps"].as_u64().unwrap() as u32,
        max_losses: r["max_losses"].as_u64().unwrap() as u8,
        idents: r["idents"].as_array().unwrap().iter().map(|x| x.as_u64().unwrap() as u16).collect(),
    });
    let mut w = C18World::init(&cfg);
    for a in r["answers"].as_array().unwrap() {
        let a = a.as_u64().unwrap() as usize;
        println!("probe of #{:?}: environment {:?} (high-prio question: {})", w.pending.map(|p| p.0), ANSWERS[a % 7], a / 7);
        match w.step(a, &[]) {
            Some(n) => w = n,
            None => {
                println!("(branch ended)");
                break;
            }
        }
    }
}
