//! C19 — the GSD parser never panics and reproduces what the file says (world W6, parser).

use crate::engine::*;
use gsd_parser::{GenericStationDescription as Gsd, PrmValueConstraint, UserPrmDataType as T};
use rayon::prelude::*;
use serde_json::{json, Value};
use std::sync::atomic::{AtomicU64, Ordering};

#[derive(Clone, Copy, Debug)]
pub struct Lex {
    pub case: u8,     // 0 as-is, 1 lower, 2 UPPER
    pub eq: u8,       // 0 "=", 1 " = ", 2 "  =\t"
    pub comment: u8,  // 0 none, 1 trailing comments, 2 full-line comments between statements
    pub crlf: bool,
    pub preamble: u8, // 0 none, 1 one line, 2 two lines (one containing '#')
    pub cont: bool,   // line continuations in number lists and inside string literals
}

impl Lex {
    pub fn all() -> Vec<Lex> {
        let mut v = vec![];
        for case in 0..3 {
            for eq in 0..3 {
                for comment in 0..3 {
                    for crlf in [false, true] {
                        for preamble in 0..3 {
                            for cont in [false, true] {
                                v.push(Lex { case, eq, comment, crlf, preamble, cont });
                            }
                        }
                    }
                }
            }
        }
        v
    }
    pub fn plain() -> Lex {
        Lex { case: 0, eq: 0, comment: 0, crlf: false, preamble: 0, cont: false }
    }
    fn kw(&self, s: &str) -> String {
        match self.case {
            1 => s.to_lowercase(),
            2 => s.to_uppercase(),
            _ => s.to_string(),
        }
    }
    fn eq(&self) -> &'static str {
        ["=", " = ", "  =\t"][self.eq as usize]
    }
    fn nl(&self) -> &'static str {
        if self.crlf {
            "\r\n"
        } else {
            "\n"
        }
    }
    /// end of a statement line
    fn eol(&self) -> String {
        match self.comment {
            1 => format!(" ; trailing comment = \"quoted\" (1){}", self.nl()),
            2 => format!("{}; full-line comment #Profibus_DP{}", self.nl(), self.nl()),
            _ => self.nl().to_string(),
        }
    }
    fn list(&self, v: &[u8]) -> String {
        let items: Vec<String> = v.iter().enumerate().map(|(i, b)| if i % 2 == 0 { format!("0x{:02x}", b) } else { format!("{}", b) }).collect();
        if self.cont && items.len() > 2 {
            let mid = items.len() / 2;
            format!("{},\\{}  {}", items[..mid].join(","), self.nl(), items[mid..].join(","))
        } else {
            items.join(",")
        }
    }
    /// a string literal; with `cont`, strings of at least 4 characters are continued on the next line
    /// with the long-line marker (backslash + line break) in their middle
    fn string(&self, v: &str) -> String {
        if self.cont && v.len() >= 4 && v.is_ascii() {
            let mid = v.len() / 2;
            format!("\"{}\\{}{}\"", &v[..mid], self.nl(), &v[mid..])
        } else {
            format!("\"{}\"", v)
        }
    }
    fn header(&self) -> String {
        let mut s = String::new();
        if self.preamble >= 1 {
            s.push_str(&format!("; some vendor tool wrote this file{}", self.nl()));
        }
        if self.preamble >= 2 {
            s.push_str(&format!("text before the marker with a # sign and #Profibus in it{}", self.nl()));
        }
        s.push_str(&format!("#{}{}", self.kw("Profibus_DP"), self.nl()));
        s
    }
}

#[derive(Clone, Debug)]
pub enum Constraint {
    None,
    Range(i64, i64),
    Set(Vec<i64>),
}

#[derive(Clone, Debug)]
pub enum Stmt {
    Str(&'static str, String),
    Num(&'static str, u32, bool),
    Bool(&'static str, bool),
    PrmText(u16, Vec<(i64, String)>),
    ExtPrm { id: u32, name: String, ty: (String, T), default: i64, constraint: Constraint, text_ref: Option<u16>, changeable: Option<bool>, visible: Option<bool> },
    TopRef(usize, u32),
    TopConst(usize, Vec<u8>),
    LegacyLen(u8),
    LegacyData(Vec<u8>),
    Module { name: String, config: Vec<u8>, reference: Option<u32>, prm_len: Option<u8>, refs: Vec<(usize, u32)>, consts: Vec<(usize, Vec<u8>)>, info: Option<String> },
    Slots(Vec<(u8, String, u16, Result<(u16, u16), Vec<u16>>)>),
    DiagBit(u32, String),
    DiagBitHelp(u32, String),
    DiagNotBit(u32, String),
    DiagArea(u16, u16, Vec<(u16, String)>),
}

impl Stmt {
    pub fn render(&self, l: &Lex) -> String {
        match self {
            Stmt::Str(k, v) => format!("{}{}{}", l.kw(k), l.eq(), l.string(v)),
            Stmt::Num(k, v, hex) => format!("{}{}{}", l.kw(k), l.eq(), if *hex { format!("0x{:X}", v) } else { format!("{}", v) }),
            Stmt::Bool(k, v) => format!("{}{}{}", l.kw(k), l.eq(), *v as u8),
            Stmt::PrmText(id, items) => {
                let mut s = format!("{}{}{}{}", l.kw("PrmText"), l.eq(), id, l.eol());
                for (v, t) in items {
                    s.push_str(&format!("{}({}){}{}{}", l.kw("Text"), v, l.eq(), l.string(t), l.eol()));
                }
                s.push_str(&l.kw("EndPrmText"));
                s
            }
            Stmt::ExtPrm { id, name, ty, default, constraint, text_ref, changeable, visible } => {
                let mut s = format!("{}{}{} {}{}", l.kw("ExtUserPrmData"), l.eq(), id, l.string(name), l.eol());
                let c = match constraint {
                    Constraint::None => String::new(),
                    Constraint::Range(a, b) => format!(" {}-{}", a, b),
                    Constraint::Set(v) => format!(" {}", v.iter().map(|x| x.to_string()).collect::<Vec<_>>().join(",")),
                };
                s.push_str(&format!("{} {}{}{}", l.kw(&ty.0), default, c, l.eol()));
                if let Some(t) = text_ref {
                    s.push_str(&format!("{}{}{}{}", l.kw("Prm_Text_Ref"), l.eq(), t, l.eol()));
                }
                if let Some(t) = changeable {
                    s.push_str(&format!("{}{}{}{}", l.kw("Changeable"), l.eq(), *t as u8, l.eol()));
                }
                if let Some(t) = visible {
                    s.push_str(&format!("{}{}{}{}", l.kw("Visible"), l.eq(), *t as u8, l.eol()));
                }
                s.push_str(&l.kw("EndExtUserPrmData"));
                s
            }
            Stmt::TopRef(off, id) => format!("{}({}){}{}", l.kw("Ext_User_Prm_Data_Ref"), off, l.eq(), id),
            Stmt::TopConst(off, b) => format!("{}({}){}{}", l.kw("Ext_User_Prm_Data_Const"), off, l.eq(), l.list(b)),
            Stmt::LegacyLen(n) => format!("{}{}{}", l.kw("User_Prm_Data_Len"), l.eq(), n),
            Stmt::LegacyData(b) => format!("{}{}{}", l.kw("User_Prm_Data"), l.eq(), l.list(b)),
            Stmt::Module { name, config, reference, prm_len, refs, consts, info } => {
                let mut s = format!("{}{}{} {}{}", l.kw("Module"), l.eq(), l.string(name), l.list(config), l.eol());
                if let Some(r) = reference {
                    s.push_str(&format!("{}{}", r, l.eol()));
                }
                if let Some(n) = prm_len {
                    s.push_str(&format!("{}{}{}{}", l.kw("Ext_Module_Prm_Data_Len"), l.eq(), n, l.eol()));
                }
                for (o, b) in consts {
                    s.push_str(&format!("{}({}){}{}{}", l.kw("Ext_User_Prm_Data_Const"), o, l.eq(), l.list(b), l.eol()));
                }
                for (o, id) in refs {
                    s.push_str(&format!("{}({}){}{}{}", l.kw("Ext_User_Prm_Data_Ref"), o, l.eq(), id, l.eol()));
                }
                if let Some(i) = info {
                    s.push_str(&format!("{}{}{}{}", l.kw("Info_Text"), l.eq(), l.string(i), l.eol()));
                }
                s.push_str(&l.kw("EndModule"));
                s
            }
            Stmt::Slots(slots) => {
                let mut s = format!("{}{}", l.kw("SlotDefinition"), l.eol());
                for (n, name, def, vals) in slots {
                    let v = match vals {
                        Ok((a, b)) => format!("{}-{}", a, b),
                        Err(set) => set.iter().map(|x| x.to_string()).collect::<Vec<_>>().join(","),
                    };
                    s.push_str(&format!("{}({}){}{} {} {}{}", l.kw("Slot"), n, l.eq(), l.string(name), def, v, l.eol()));
                }
                s.push_str(&l.kw("EndSlotDefinition"));
                s
            }
            Stmt::DiagBit(b, t) => format!("{}({}){}{}", l.kw("Unit_Diag_Bit"), b, l.eq(), l.string(t)),
            Stmt::DiagBitHelp(b, t) => format!("{}({}){}{}", l.kw("Unit_Diag_Bit_Help"), b, l.eq(), l.string(t)),
            Stmt::DiagNotBit(b, t) => format!("{}({}){}{}", l.kw("Unit_Diag_Not_Bit"), b, l.eq(), l.string(t)),
            Stmt::DiagArea(a, b, vals) => {
                let mut s = format!("{}{}{}-{}{}", l.kw("Unit_Diag_Area"), l.eq(), a, b, l.eol());
                for (v, t) in vals {
                    s.push_str(&format!("{}({}){}{}{}", l.kw("Value"), v, l.eq(), l.string(t), l.eol()));
                }
                s.push_str(&l.kw("Unit_Diag_Area_End"));
                s
            }
        }
    }
}

pub fn render_doc(stmts: &[Stmt], l: &Lex) -> String {
    let mut s = l.header();
    for st in stmts {
        s.push_str(&st.render(l));
        s.push_str(&l.eol());
    }
    s
}

fn expect_constraint(c: &Constraint) -> PrmValueConstraint {
    match c {
        Constraint::None => PrmValueConstraint::Unconstrained,
        Constraint::Range(a, b) => PrmValueConstraint::MinMax(*a, *b),
        Constraint::Set(v) => PrmValueConstraint::Enum(v.clone()),
    }
}

/// Check that the parsed description contains what the statements say.
pub fn check_doc(stmts: &[Stmt], g: &Gsd) -> Result<(), String> {
    let find_def = |id: u32| -> Option<&Stmt> { stmts.iter().find(|s| matches!(s, Stmt::ExtPrm { id: i, .. } if *i == id)) };
    let find_text = |id: u16| -> Option<&Vec<(i64, String)>> {
        stmts.iter().find_map(|s| match s {
            Stmt::PrmText(i, items) if *i == id => Some(items),
            _ => None,
        })
    };
    let check_def = |def: &gsd_parser::UserPrmDataDefinition, st: &Stmt| -> Result<(), String> {
        if let Stmt::ExtPrm { name, ty, default, constraint, text_ref, changeable, visible, .. } = st {
            if def.name != *name {
                return Err(format!("definition name {:?} != {:?}", def.name, name));
            }
            if def.data_type != ty.1 {
                return Err(format!("data type {:?} != {:?}", def.data_type, ty.1));
            }
            if def.default_value != *default {
                return Err(format!("default {} != {}", def.default_value, default));
            }
            if def.constraint != expect_constraint(constraint) {
                return Err(format!("constraint {:?} != {:?}", def.constraint, constraint));
            }
            if def.changeable != changeable.unwrap_or(true) || def.visible != visible.unwrap_or(true) {
                return Err(format!("changeable/visible {}/{} != {:?}/{:?}", def.changeable, def.visible, changeable, visible));
            }
            match (text_ref, &def.text_ref) {
                (None, None) => {}
                (Some(id), Some(map)) => {
                    let items = find_text(*id).ok_or("harness: text table missing")?;
                    let exp: std::collections::BTreeMap<String, i64> = items.iter().map(|(v, t)| (t.clone(), *v)).collect();
                    if **map != exp {
                        return Err(format!("text table {:?} != {:?}", map, exp));
                    }
                }
                (a, b) => return Err(format!("text_ref {:?} vs {:?}", a, b.is_some())),
            }
        }
        Ok(())
    };
    let mut top_refs = vec![];
    let mut top_consts = vec![];
    let mut modules = vec![];
    let has_ext = stmts.iter().any(|s| matches!(s, Stmt::TopRef(..) | Stmt::TopConst(..)));
    for st in stmts {
        match st {
            Stmt::Str(k, v) => {
                let got = match k.to_lowercase().as_str() {
                    "vendor_name" => &g.vendor,
                    "model_name" => &g.model,
                    "revision" => &g.revision,
                    "hardware_release" => &g.hardware_release,
                    "software_release" => &g.software_release,
                    "implementation_type" => &g.implementation_type,
                    _ => continue,
                };
                if got != v {
                    return Err(format!("{k}: parsed {:?}, file says {:?}", got, v));
                }
            }
            Stmt::Num(k, v, _) => {
                let got: u32 = match k.to_lowercase().as_str() {
                    "gsd_revision" => g.gsd_revision as u32,
                    "revision_number" => g.revision_number as u32,
                    "ident_number" => g.ident_number as u32,
                    "max_input_len" => g.max_input_length as u32,
                    "max_output_len" => g.max_output_length as u32,
                    "max_data_len" => g.max_data_length as u32,
                    "max_diag_data_len" => g.max_diag_data_length as u32,
                    "maxtsdr_9.6" => g.max_tsdr.b9600 as u32,
                    "maxtsdr_19.2" => g.max_tsdr.b19200 as u32,
                    "maxtsdr_31.25" => g.max_tsdr.b31250 as u32,
                    "maxtsdr_45.45" => g.max_tsdr.b45450 as u32,
                    "maxtsdr_93.75" => g.max_tsdr.b93750 as u32,
                    "maxtsdr_187.5" => g.max_tsdr.b187500 as u32,
                    "maxtsdr_500" => g.max_tsdr.b500000 as u32,
                    "maxtsdr_1.5m" => g.max_tsdr.b1500000 as u32,
                    "maxtsdr_3m" => g.max_tsdr.b3000000 as u32,
                    "maxtsdr_6m" => g.max_tsdr.b6000000 as u32,
                    "maxtsdr_12m" => g.max_tsdr.b12000000 as u32,
                    _ => continue,
                };
                if got != *v {
                    return Err(format!("{k}: parsed {}, file says {}", got, v));
                }
            }
            Stmt::Bool(k, v) => {
                use gsd_parser::SupportedSpeeds as S;
                let speed = |f: S| g.supported_speeds.contains(f);
                let got = match k.to_lowercase().as_str() {
                    "fail_safe" => g.fail_safe,
                    "freeze_mode_supp" => g.freeze_mode_supported,
                    "sync_mode_supp" => g.sync_mode_supported,
                    "auto_baud_supp" => g.auto_baud_supported,
                    "set_slave_add_supp" => g.set_slave_addr_supported,
                    "modular_station" => g.modular_station,
                    "9.6_supp" => speed(S::B9600),
                    "19.2_supp" => speed(S::B19200),
                    "31.25_supp" => speed(S::B31250),
                    "45.45_supp" => speed(S::B45450),
                    "93.75_supp" => speed(S::B93750),
                    "187.5_supp" => speed(S::B187500),
                    "500_supp" => speed(S::B500000),
                    "1.5m_supp" => speed(S::B1500000),
                    "3m_supp" => speed(S::B3000000),
                    "6m_supp" => speed(S::B6000000),
                    "12m_supp" => speed(S::B12000000),
                    _ => continue,
                };
                if got != *v {
                    return Err(format!("{k}: parsed {}, file says {}", got, v));
                }
            }
            Stmt::TopRef(o, id) => top_refs.push((*o, *id)),
            Stmt::TopConst(o, b) => top_consts.push((*o, b.clone())),
            Stmt::LegacyData(b) => {
                if !has_ext && !g.user_prm_data.data_const.iter().any(|(o, c)| *o == 0 && c == b) {
                    return Err(format!("User_Prm_Data {:?} not in {:?}", b, g.user_prm_data.data_const));
                }
            }
            Stmt::LegacyLen(n) => {
                if !has_ext && g.user_prm_data.length != *n {
                    return Err(format!("User_Prm_Data_Len {} != {}", g.user_prm_data.length, n));
                }
            }
            Stmt::Module { .. } => modules.push(st.clone()),
            Stmt::Slots(slots) => {
                if g.slots.len() != slots.len() {
                    return Err(format!("{} slots parsed, file has {}", g.slots.len(), slots.len()));
                }
                for (gs, (n, name, def, vals)) in g.slots.iter().zip(slots.iter()) {
                    if gs.number != *n || gs.name != *name {
                        return Err(format!("slot {:?}/{} != {:?}/{}", gs.name, gs.number, name, n));
                    }
                    if gs.default.reference != Some(*def as u32) {
                        return Err(format!("slot default {:?} != {}", gs.default.reference, def));
                    }
                    let want: Vec<u32> = match vals {
                        Ok((a, b)) => (*a..=*b).map(|x| x as u32).collect(),
                        Err(s) => s.iter().map(|x| *x as u32).collect(),
                    };
                    let defined: Vec<u32> = stmts.iter().filter_map(|s| if let Stmt::Module { reference: Some(r), .. } = s { Some(*r) } else { None }).collect();
                    let want: Vec<u32> = want.into_iter().filter(|r| defined.contains(r)).collect();
                    let got: Vec<u32> = gs.allowed_modules.iter().filter_map(|m| m.reference).collect();
                    if got != want {
                        return Err(format!("slot {} allowed modules {:?} != {:?}", n, got, want));
                    }
                }
            }
            Stmt::DiagBit(b, t) => {
                if g.unit_diag.bits.get(b).map(|i| &i.text) != Some(t) {
                    return Err(format!("Unit_Diag_Bit({b}) {:?} != {:?}", g.unit_diag.bits.get(b), t));
                }
            }
            Stmt::DiagBitHelp(b, t) => {
                if g.unit_diag.bits.get(b).and_then(|i| i.help.as_ref()) != Some(t) {
                    return Err(format!("Unit_Diag_Bit_Help({b}) {:?} != {:?}", g.unit_diag.bits.get(b), t));
                }
            }
            Stmt::DiagNotBit(b, t) => {
                if g.unit_diag.not_bits.get(b).map(|i| &i.text) != Some(t) {
                    return Err(format!("Unit_Diag_Not_Bit({b}) {:?} != {:?}", g.unit_diag.not_bits.get(b), t));
                }
            }
            Stmt::DiagArea(a, b, vals) => {
                let exp: std::collections::BTreeMap<u16, String> = vals.iter().cloned().collect();
                if !g.unit_diag.areas.iter().any(|ar| ar.first == *a && ar.last == *b && ar.values == exp) {
                    return Err(format!("Unit_Diag_Area {a}-{b} not reproduced: {:?}", g.unit_diag.areas));
                }
            }
            Stmt::PrmText(..) | Stmt::ExtPrm { .. } => {}
        }
    }
    if has_ext {
        let got: Vec<(usize, String)> = g.user_prm_data.data_ref.iter().map(|(o, d)| (*o, d.name.clone())).collect();
        if got.len() != top_refs.len() {
            return Err(format!("{} top-level references parsed, file has {}", got.len(), top_refs.len()));
        }
        for ((o, d), (eo, id)) in g.user_prm_data.data_ref.iter().zip(top_refs.iter()) {
            if o != eo {
                return Err(format!("reference offset {} != {}", o, eo));
            }
            check_def(d, find_def(*id).ok_or("harness: def missing")?)?;
        }
        if g.user_prm_data.data_const != top_consts {
            return Err(format!("constants {:?} != {:?}", g.user_prm_data.data_const, top_consts));
        }
    }
    if g.available_modules.len() != modules.len() {
        return Err(format!("{} modules parsed, file has {}", g.available_modules.len(), modules.len()));
    }
    for (gm, st) in g.available_modules.iter().zip(modules.iter()) {
        if let Stmt::Module { name, config, reference, prm_len, refs, consts, info } = st {
            if gm.name != *name || gm.config != *config || gm.reference != *reference || gm.info_text != *info {
                return Err(format!("module {:?} cfg {:?} ref {:?} info {:?} != {:?} {:?} {:?} {:?}", gm.name, gm.config, gm.reference, gm.info_text, name, config, reference, info));
            }
            if gm.module_prm_data.length != prm_len.unwrap_or(0) || gm.module_prm_data.data_const != *consts {
                return Err(format!("module prm len/consts {:?}/{:?} != {:?}/{:?}", gm.module_prm_data.length, gm.module_prm_data.data_const, prm_len, consts));
            }
            if gm.module_prm_data.data_ref.len() != refs.len() {
                return Err("module reference count".into());
            }
            for ((o, d), (eo, id)) in gm.module_prm_data.data_ref.iter().zip(refs.iter()) {
                if o != eo {
                    return Err(format!("module reference offset {} != {}", o, eo));
                }
                check_def(d, find_def(*id).ok_or("harness: def missing")?)?;
            }
        }
    }
    Ok(())
}

pub fn parse_catch(text: &str) -> Result<Result<Gsd, String>, PanicInfo> {
    catch(|| {
        let (r, _w) = gsd_parser::parser::parse_with_warnings(std::path::Path::new("x.gsd"), text);
        let r2 = gsd_parser::parser::parse(std::path::Path::new("x.gsd"), text);
        if r.is_ok() != r2.is_ok() {
            return Err("parse and parse_with_warnings disagree".to_string());
        }
        r.map_err(|e| format!("{}", e.variant.message()))
    })
}

pub fn types() -> Vec<(String, T)> {
    vec![
        ("Unsigned8".into(), T::Unsigned8),
        ("Unsigned16".into(), T::Unsigned16),
        ("Unsigned32".into(), T::Unsigned32),
        ("Signed8".into(), T::Signed8),
        ("Signed16".into(), T::Signed16),
        ("Signed32".into(), T::Signed32),
        ("Bit(0)".into(), T::Bit(0)),
        ("Bit(7)".into(), T::Bit(7)),
        ("BitArea(1-2)".into(), T::BitArea(1, 2)),
        ("BitArea(0-7)".into(), T::BitArea(0, 7)),
    ]
}

/// the small documents of part (a): every statement template with hole values, along dependency chains
pub fn small_docs() -> Vec<Vec<Stmt>> {
    let mut docs: Vec<Vec<Stmt>> = vec![];
    let strings = ["", "x", "Mueller & Co; semi", "with = sign (1) #", "UPPER lower 0x10"];
    for k in ["Vendor_Name", "Model_Name", "Revision", "Hardware_Release", "Software_Release", "Implementation_Type"] {
        for v in strings {
            docs.push(vec![Stmt::Str(k, v.to_string())]);
        }
    }
    for (k, max) in [("GSD_Revision", 255u32), ("Revision_Number", 255), ("Ident_Number", 65535), ("Max_Input_Len", 255), ("Max_Output_Len", 255), ("Max_Data_Len", 65535), ("Max_Diag_Data_Len", 255)] {
        for v in [0, 1, 10, max] {
            for hex in [false, true] {
                docs.push(vec![Stmt::Num(k, v, hex)]);
            }
        }
    }
    for k in ["MaxTsdr_9.6", "MaxTsdr_19.2", "MaxTsdr_31.25", "MaxTsdr_45.45", "MaxTsdr_93.75", "MaxTsdr_187.5", "MaxTsdr_500", "MaxTsdr_1.5M", "MaxTsdr_3M", "MaxTsdr_6M", "MaxTsdr_12M"] {
        for v in [0u32, 60, 65535] {
            docs.push(vec![Stmt::Num(k, v, false)]);
        }
    }
    for k in ["Fail_Safe", "Freeze_Mode_supp", "Sync_Mode_supp", "Auto_Baud_supp", "Set_Slave_Add_supp", "9.6_supp", "19.2_supp", "31.25_supp", "45.45_supp", "93.75_supp", "187.5_supp", "500_supp", "1.5M_supp", "3M_supp", "6M_supp", "12M_supp"] {
        for v in [false, true] {
            docs.push(vec![Stmt::Bool(k, v)]);
        }
    }
    // PrmText -> ExtUserPrmData -> Ref
    let text = Stmt::PrmText(7, vec![(0, "off".into()), (1, "on".into()), (-1, "neg".into())]);
    for ty in types() {
        for (ci, constraint) in [Constraint::None, Constraint::Range(0, 1), Constraint::Set(vec![0, 1]), Constraint::Range(-5, 5)].into_iter().enumerate() {
            for default in [0i64, 1] {
                for tr in [None, Some(7u16)] {
                    if ci == 3 && !ty.0.starts_with("Signed") {
                        continue;
                    }
                    let ext = Stmt::ExtPrm { id: 3, name: "Param A".into(), ty: ty.clone(), default, constraint: constraint.clone(), text_ref: tr, changeable: if ci == 1 { Some(false) } else { None }, visible: if ci == 2 { Some(false) } else { None } };
                    docs.push(vec![text.clone(), ext, Stmt::TopRef(2, 3)]);
                }
            }
        }
    }
    docs.push(vec![Stmt::TopConst(0, vec![1, 2, 3, 4, 5, 255])]);
    docs.push(vec![Stmt::TopConst(3, vec![0])]);
    docs.push(vec![Stmt::LegacyLen(4), Stmt::LegacyData(vec![9, 8, 7, 6])]);
    docs.push(vec![Stmt::LegacyData(vec![9, 8, 7])]);
    // Module -> Slot
    let ext = Stmt::ExtPrm { id: 1, name: "M prm".into(), ty: ("Unsigned8".into(), T::Unsigned8), default: 3, constraint: Constraint::Range(0, 9), text_ref: None, changeable: None, visible: None };
    for reference in [None, Some(1u32), Some(300)] {
        for info in [None, Some("info".to_string())] {
            for with_prm in [false, true] {
                let m = Stmt::Module { name: "Mod 1".into(), config: vec![0x30, 0xFF, 0x11], reference, prm_len: if with_prm { Some(3) } else { None }, refs: if with_prm { vec![(1, 1)] } else { vec![] }, consts: if with_prm { vec![(0, vec![5, 0, 0])] } else { vec![] }, info: info.clone() };
                docs.push(vec![ext.clone(), Stmt::Bool("Modular_Station", true), Stmt::Num("Max_Module", 8, false), m]);
            }
        }
    }
    let m1 = Stmt::Module { name: "A".into(), config: vec![1], reference: Some(1), prm_len: None, refs: vec![], consts: vec![], info: None };
    let m2 = Stmt::Module { name: "B".into(), config: vec![2, 3], reference: Some(2), prm_len: None, refs: vec![], consts: vec![], info: None };
    let m3 = Stmt::Module { name: "C".into(), config: vec![4], reference: Some(5), prm_len: None, refs: vec![], consts: vec![], info: None };
    let pre = vec![Stmt::Bool("Modular_Station", true), Stmt::Num("Max_Module", 8, false), m1, m2, m3];
    for slots in [vec![(1u8, "S1".to_string(), 1u16, Ok((1u16, 2u16)))], vec![(1, "S1".into(), 2, Err(vec![1u16, 2, 5])), (2, "S2".into(), 5, Ok((5, 5)))], vec![(3, "S3".into(), 1, Ok((1, 5)))]] {
        let mut d = pre.clone();
        d.push(Stmt::Slots(slots));
        docs.push(d);
    }
    // boundary values of every numeric hole (full width of the field's type)
    {
        let t = Stmt::PrmText(65535, vec![(-2147483648, "min".into()), (4294967295, "max".into()), (0, "zero".into())]);
        let e32 = Stmt::ExtPrm { id: 70000, name: "Wide".into(), ty: ("Unsigned32".into(), T::Unsigned32), default: 4294967295, constraint: Constraint::Range(0, 4294967295), text_ref: Some(65535), changeable: Some(false), visible: Some(false) };
        let s32 = Stmt::ExtPrm { id: 4294967295, name: "Neg".into(), ty: ("Signed32".into(), T::Signed32), default: -2147483648, constraint: Constraint::Range(-2147483648, 2147483647), text_ref: None, changeable: None, visible: None };
        let s16 = Stmt::ExtPrm { id: 256, name: "Set".into(), ty: ("Signed16".into(), T::Signed16), default: -1, constraint: Constraint::Set(vec![-32768, -1, 0, 32767]), text_ref: None, changeable: None, visible: None };
        docs.push(vec![t.clone(), e32.clone(), s32.clone(), s16.clone(), Stmt::TopRef(243, 70000), Stmt::TopRef(0, 4294967295), Stmt::TopRef(100, 256), Stmt::TopConst(200, vec![0, 255, 128])]);
        let m = Stmt::Module { name: "Big".into(), config: (0..=243u8).map(|i| i.wrapping_mul(7)).collect(), reference: Some(4294967295), prm_len: Some(255), refs: vec![(254, 70000)], consts: vec![(250, vec![1, 2, 3, 4])], info: Some("i".into()) };
        docs.push(vec![t, e32, Stmt::Bool("Modular_Station", true), Stmt::Num("Max_Module", 255, false), m]);
        docs.push(vec![Stmt::DiagBit(4294967295, "top".into()), Stmt::DiagNotBit(65536, "n".into()), Stmt::DiagArea(0, 65535, vec![(65535, "v".into()), (0, "z".into())])]);
        docs.push(vec![Stmt::LegacyLen(255), Stmt::LegacyData((0..=254u8).collect())]);
    }
    // module references beyond one byte (slot references are 16 bit)
    {
        let mk = |name: &str, r: u32| Stmt::Module { name: name.into(), config: vec![r as u8], reference: Some(r), prm_len: None, refs: vec![], consts: vec![], info: None };
        let pre = vec![Stmt::Bool("Modular_Station", true), Stmt::Num("Max_Module", 8, false), mk("M255", 255), mk("M256", 256), mk("M300", 300), mk("M65535", 65535)];
        for slots in [
            vec![(1u8, "Wide".to_string(), 300u16, Ok((255u16, 300u16)))],
            vec![(2, "Set".into(), 65535, Err(vec![255u16, 256, 65535]))],
            vec![(255, "Last".into(), 256, Ok((256, 256))), (0, "Zero".into(), 255, Err(vec![255u16]))],
        ] {
            let mut d = pre.clone();
            d.push(Stmt::Slots(slots));
            docs.push(d);
        }
    }
    for b in [0u32, 7, 31] {
        docs.push(vec![Stmt::DiagBit(b, "bit text".into()), Stmt::DiagBitHelp(b, "help text".into()), Stmt::DiagNotBit(b, "not text".into())]);
    }
    docs.push(vec![Stmt::DiagArea(16, 23, vec![(0, "zero".into()), (255, "max".into())])]);
    docs
}

pub fn full_doc() -> Vec<Stmt> {
    let mut d = vec![
        Stmt::Num("GSD_Revision", 3, false),
        Stmt::Str("Vendor_Name", "ACME".into()),
        Stmt::Str("Model_Name", "Frob 9".into()),
        Stmt::Str("Revision", "V1".into()),
        Stmt::Num("Ident_Number", 0xBEEF, true),
        Stmt::Bool("19.2_supp", true),
        Stmt::Bool("12M_supp", true),
        Stmt::Num("MaxTsdr_19.2", 15, false),
        Stmt::Num("MaxTsdr_12M", 800, false),
        Stmt::Bool("Modular_Station", true),
        Stmt::Num("Max_Module", 4, false),
        Stmt::Bool("Fail_Safe", true),
        Stmt::PrmText(1, vec![(0, "FALSE".into()), (1, "TRUE".into())]),
        Stmt::ExtPrm { id: 1, name: "Flag".into(), ty: ("Bit(0)".into(), T::Bit(0)), default: 0, constraint: Constraint::Range(0, 1), text_ref: Some(1), changeable: None, visible: None },
        Stmt::ExtPrm { id: 2, name: "Level".into(), ty: ("Unsigned16".into(), T::Unsigned16), default: 2000, constraint: Constraint::Range(0, 10000), text_ref: None, changeable: Some(true), visible: Some(true) },
        Stmt::TopConst(0, vec![0, 0, 0, 0, 0xff]),
        Stmt::TopRef(1, 1),
        Stmt::TopRef(2, 2),
        Stmt::Module { name: "IO".into(), config: vec![0x30, 0xFF], reference: Some(1), prm_len: Some(2), refs: vec![(0, 1)], consts: vec![(0, vec![5, 0])], info: Some("std".into()) },
        Stmt::Module { name: "IO2".into(), config: vec![0x31], reference: Some(2), prm_len: None, refs: vec![], consts: vec![], info: None },
        Stmt::Slots(vec![(1, "Slot A".into(), 1, Ok((1, 2)))]),
        Stmt::DiagBit(3, "three".into()),
        Stmt::DiagArea(8, 15, vec![(1, "one".into())]),
    ];
    d.push(Stmt::Num("Max_Diag_Data_Len", 64, false));
    d
}

/// positions of number and string tokens outside comments (for the grammar-level mutations)
fn tokens(text: &str) -> (Vec<(usize, usize)>, Vec<(usize, usize)>) {
    let b = text.as_bytes();
    let mut nums = vec![];
    let mut strs = vec![];
    let mut i = 0;
    while i < b.len() {
        match b[i] {
            b';' => {
                while i < b.len() && b[i] != b'\n' {
                    i += 1;
                }
            }
            b'"' => {
                let s = i;
                i += 1;
                while i < b.len() && b[i] != b'"' {
                    i += 1;
                }
                i = (i + 1).min(b.len());
                strs.push((s, i));
            }
            c if c.is_ascii_digit() && (i == 0 || !(b[i - 1].is_ascii_alphanumeric() || b[i - 1] == b'_' || b[i - 1] == b'.')) => {
                let s = i;
                while i < b.len() && (b[i].is_ascii_hexdigit() || b[i] == b'x') {
                    i += 1;
                }
                // only pure numbers (not identifiers like 9.6_supp)
                if i >= b.len() || !(b[i].is_ascii_alphanumeric() || b[i] == b'_' || b[i] == b'.') {
                    nums.push((s, i));
                }
            }
            _ => i += 1,
        }
    }
    (nums, strs)
}

pub fn mutations(text: &str) -> Vec<(String, String)> {
    let mut out = vec![];
    let marker = text.find("#Profibus_DP").or_else(|| text.to_lowercase().find("#profibus_dp")).unwrap_or(0);
    let (nums, strs) = tokens(text);
    let rep = |s: usize, e: usize, with: &str| format!("{}{}{}", &text[..s], with, &text[e..]);
    for (s, e) in nums.iter().filter(|(s, _)| *s > marker) {
        for with in ["\"x\"", "-1", "256", "65536", "4294967296", "9223372036854775808", "1.5", "999", "0x", ""] {
            out.push((format!("number@{s}->{with}"), rep(*s, *e, with)));
        }
    }
    for (s, e) in strs.iter().filter(|(s, _)| *s > marker) {
        for with in ["7", "0x10", "\"", ""] {
            out.push((format!("string@{s}->{with}"), rep(*s, *e, with)));
        }
    }
    for ty in ["Unsigned8", "Unsigned16", "Unsigned32", "Signed8", "Signed16", "Signed32"] {
        let mut from = marker;
        while let Some(p) = text[from..].find(ty) {
            let at = from + p;
            out.push((format!("type@{at}"), rep(at, at + ty.len(), "Float32")));
            from = at + ty.len();
        }
    }
    for (i, ch) in text.char_indices().filter(|(i, _)| *i > marker) {
        if ch == '(' || ch == ')' || ch == '=' || ch == '-' {
            out.push((format!("delete{ch}@{i}"), rep(i, i + 1, "")));
        }
    }
    // delete each End... line, each single line
    let mut pos = 0;
    for line in text.split_inclusive('\n') {
        if pos > marker {
            out.push((format!("delete_line@{pos}"), rep(pos, pos + line.len(), "")));
        }
        pos += line.len();
    }
    out
}

pub fn run(tier: Tier) -> ! {
    let c = ctx();
    let evals = AtomicU64::new(0);
    let ok_count = AtomicU64::new(0);
    let err_count = AtomicU64::new(0);
    let nontrivial = AtomicU64::new(0);
    let report_panic = |kind: &str, p: &PanicInfo, text: &str, weight: u64| {
        c.violation(format!("c19.{}", p.sig()), format!("[{kind}] parser panicked: {}:{} {}", p.file, p.line, p.msg), json!({"world":"w6-gsd","text":text}), weight);
    };

    // (a) well-formed documents x lexical variation
    let lexes = Lex::all();
    let mut docs = small_docs();
    docs.push(full_doc());
    let lex_sel: Vec<Lex> = match tier {
        Tier::Quick => lexes.iter().copied().filter(|l| (l.case as usize + l.eq as usize + l.comment as usize + l.preamble as usize + l.crlf as usize + l.cont as usize) % 2 == 0 || (l.case == 2 && l.crlf)).collect(),
        Tier::Thorough => lexes.clone(),
    };
    docs.par_iter().enumerate().for_each(|(di, doc)| {
        let these: &[Lex] = if di == docs.len() - 1 { &lexes } else { &lex_sel };
        for l in these {
            if c.should_stop() {
                return;
            }
            let text = render_doc(doc, l);
            evals.fetch_add(1, Ordering::Relaxed);
            nontrivial.fetch_add(1, Ordering::Relaxed);
            match parse_catch(&text) {
                Err(p) => report_panic("well-formed", &p, &text, text.len() as u64),
                Ok(Err(e)) => {
                    c.violation(format!("c19.rejects_well_formed.{}", stmt_kind(doc)), format!("well-formed file rejected: {e}; lexical variant {:?}", l), json!({"world":"w6-gsd","text":text}), text.len() as u64);
                }
                Ok(Ok(g)) => {
                    ok_count.fetch_add(1, Ordering::Relaxed);
                    if let Err(e) = check_doc(doc, &g) {
                        c.violation(format!("c19.content_differs.{}", stmt_kind(doc)), format!("{e}; lexical variant {:?}", l), json!({"world":"w6-gsd","text":text}), text.len() as u64);
                    }
                }
            }
        }
    });
    c.witness_n("c19_well_formed_ok", ok_count.load(Ordering::Relaxed));

    // (b) grammar-level mutations of the generated documents and of the shipped mock.gsd
    let mut bases: Vec<String> = vec![render_doc(&full_doc(), &Lex::plain()), render_doc(&full_doc(), &Lex { case: 1, eq: 1, comment: 1, crlf: true, preamble: 2, cont: true })];
    if let Ok(m) = std::fs::read_to_string(format!("{}gsd-parser/tests/data/mock.gsd", repo_prefix())) {
        bases.push(m);
    } else {
        c.note("mock.gsd not found");
    }
    for d in small_docs().iter().step_by(tier.pick(7, 2)) {
        bases.push(render_doc(d, &Lex::plain()));
    }
    let muts: Vec<(String, String)> = bases.iter().flat_map(|b| mutations(b)).collect();
    muts.par_iter().for_each(|(name, text)| {
        evals.fetch_add(1, Ordering::Relaxed);
        nontrivial.fetch_add(1, Ordering::Relaxed);
        match parse_catch(text) {
            Err(p) => report_panic(&format!("mutation {name}"), &p, text, text.len() as u64),
            Ok(Ok(_)) => {
                ok_count.fetch_add(1, Ordering::Relaxed);
            }
            Ok(Err(_)) => {
                err_count.fetch_add(1, Ordering::Relaxed);
            }
        }
    });

    // (c) all token strings up to length L after the marker; all 1-2 byte raw strings
    const TOK: [&str; 14] = ["Vendor_Name", "=", "\"s\"", "1", "0x1F", ",", "\n", "(", ")", "-", "PrmText", "EndPrmText", "Text", "Module"];
    let maxlen = tier.pick(5, 6);
    let firsts: Vec<usize> = (0..TOK.len()).collect();
    firsts.par_iter().for_each(|f| {
        fn rec(cur: &mut Vec<usize>, maxlen: usize, f: &mut dyn FnMut(&[usize])) {
            f(cur);
            if cur.len() == maxlen {
                return;
            }
            for t in 0..TOK.len() {
                cur.push(t);
                rec(cur, maxlen, f);
                cur.pop();
            }
        }
        let mut cur = vec![*f];
        rec(&mut cur, maxlen, &mut |seq| {
            let text = format!("#Profibus_DP\n{}\n", seq.iter().map(|t| TOK[*t]).collect::<Vec<_>>().join(" "));
            evals.fetch_add(1, Ordering::Relaxed);
            match parse_catch(&text) {
                Err(p) => report_panic("token string", &p, &text, text.len() as u64),
                Ok(Ok(_)) => {
                    ok_count.fetch_add(1, Ordering::Relaxed);
                }
                Ok(Err(_)) => {
                    err_count.fetch_add(1, Ordering::Relaxed);
                }
            }
        });
    });
    for a in 0..=255u8 {
        for b in 0..=256u16 {
            let bytes: Vec<u8> = if b == 256 { vec![a] } else { vec![a, b as u8] };
            let text = String::from_utf8_lossy(&bytes).to_string();
            evals.fetch_add(1, Ordering::Relaxed);
            if let Err(p) = parse_catch(&text) {
                report_panic("raw bytes", &p, &text, 1);
            }
        }
    }
    c.witness_n("c19_rejected_inputs", err_count.load(Ordering::Relaxed));

    let mut ev = Evidence::default();
    ev.level = "exploration";
    ev.evaluations = evals.load(Ordering::Relaxed);
    ev.distinct_nontrivial = nontrivial.load(Ordering::Relaxed);
    ev.rule = "(a) every statement template x hole values (incl. dependency chains PrmText->ExtUserPrmData->Ref, Module->Slot) and one full document, each rendered by an independent pretty-printer in the lexical variants (keyword case x '=' spacing x comments x LF/CRLF x preamble x line continuation) and compared field by field; (b) every grammar-level mutation (number/string swap, numeric extremes, unknown data type, dangling reference, deleted '(' ')' '=' '-', deleted line) at every position of the generated documents and of mock.gsd; (c) all token strings up to the length bound over 14 token classes and all 1-2 byte raw strings; distinct by construction; non-trivial = (a) and (b)".into();
    ev.samples = vec![json!(render_doc(&small_docs()[100], &lexes[77])), json!(muts.get(5).map(|m| m.0.clone()))];
    ev.exhaustive = true;
    ev.bounds = json!({"documents": docs.len(), "lexical_variants": lex_sel.len(), "full_document_variants": lexes.len(), "mutations": muts.len(), "token_string_len": maxlen});
    ev.distinct_outcomes = 3;
    ev.required_witnesses = vec!["c19_well_formed_ok", "c19_rejected_inputs"];
    finish(ev)
}

fn stmt_kind(doc: &[Stmt]) -> String {
    let last = doc.last().unwrap();
    match last {
        Stmt::Str(k, _) | Stmt::Num(k, _, _) | Stmt::Bool(k, _) => {
            if doc.len() > 5 {
                "full_document".into()
            } else {
                format!("setting.{}", k.split('_').next().unwrap_or(k))
            }
        }
        Stmt::PrmText(..) => "PrmText".into(),
        Stmt::ExtPrm { .. } => "ExtUserPrmData".into(),
        Stmt::TopRef(..) => "Ext_User_Prm_Data_Ref".into(),
        Stmt::TopConst(..) => "Ext_User_Prm_Data_Const".into(),
        Stmt::LegacyLen(..) | Stmt::LegacyData(..) => "User_Prm_Data".into(),
        Stmt::Module { .. } => "Module".into(),
        Stmt::Slots(..) => "SlotDefinition".into(),
        Stmt::DiagBit(..) | Stmt::DiagBitHelp(..) | Stmt::DiagNotBit(..) => "Unit_Diag_Bit".into(),
        Stmt::DiagArea(..) => "Unit_Diag_Area".into(),
    }
}

pub fn replay(v: &Value) {
    let text = v["replay"]["text"].as_str().unwrap();
    println!("---- input ----\n{text}\n---------------");
    match parse_catch(text) {
        Err(p) => println!("PANIC: {}:{} {}", p.file, p.line, p.msg),
        Ok(Err(e)) => println!("Err: {e}"),
        Ok(Ok(g)) => println!("Ok: {:#?}", g),
    }
}
