//! Property runners over world W4: C03, C04, C07, C08, C14.

use crate::dprig::*;
use crate::engine::*;
use crate::w4::*;
use profirust::dp::PeripheralEvent;
use rayon::prelude::*;
use serde_json::{json, Value};
use std::sync::Arc;

pub struct Plan {
    pub label: String,
    pub cfg: W4Cfg,
    pub depth: usize,
    pub max_states: u64,
    pub secs: f64,
}

#[derive(Default)]
pub struct Totals {
    pub states: u64,
    pub transitions: u64,
    pub validated: u64,
    pub worlds: u64,
    pub closed_worlds: u64,
    pub caps: Vec<String>,
    pub per_world: Vec<Value>,
    pub samples: Vec<Value>,
    pub min_depth_completed: usize,
}

/// Explore every plan with the BFS engine; `per_state` is called for every newly discovered state.
pub fn explore(plans: Vec<Plan>, _time_budget_s: f64, per_state: &(dyn Fn(&W4World) + Sync)) -> Totals {
    let mut t = Totals { min_depth_completed: usize::MAX, ..Default::default() };
    for (_pi, plan) in plans.into_iter().enumerate() {
        if ctx().should_stop() {
            break;
        }
        let cfg = Arc::new(plan.cfg);
        let opts = BfsOpts { max_depth: plan.depth, max_states: plan.max_states, max_secs: plan.secs };
        let init = W4World::init(&cfg);
        let st = bfs(vec![init], &opts, |_d, nodes| {
            nodes.par_iter().for_each(|n| per_state(&n.w));
        });
        // validation: re-execute sampled paths from scratch
        let cfg2 = cfg.clone();
        let v = validate_paths(move |_| W4World::init(&cfg2), &st.sample_paths);
        t.states += st.states;
        t.transitions += st.transitions;
        t.validated += v;
        t.worlds += 1;
        if st.closed {
            t.closed_worlds += 1;
        }
        if let Some(c) = &st.capped {
            t.caps.push(format!("{}: {}", plan.label, c));
        }
        t.min_depth_completed = t.min_depth_completed.min(if st.closed { usize::MAX } else { st.depth_completed });
        t.per_world.push(json!({"world": plan.label, "states": st.states, "transitions": st.transitions, "depth_completed": st.depth_completed, "closed": st.closed, "per_level": st.per_level}));
        if t.samples.len() < 6 {
            if let Some((p, _)) = st.sample_paths.last() {
                t.samples.push(json!({"world": plan.label, "path": p[1..].iter().map(|a| cfg.acts[*a as usize].name()).collect::<Vec<_>>()}));
            }
        }
    }
    t
}

pub fn std_acts(n_periph: u8, malformed: &[u8], user: bool) -> Vec<Act> {
    let mut v = vec![Act::Answer, Act::ReqLost, Act::ReplyLost, Act::NoCallback, Act::PowerCycle, Act::PrmReq, Act::NotReady, Act::DiagPending];
    for k in malformed {
        v.push(Act::Malformed(*k));
    }
    if user {
        for i in 0..n_periph {
            v.push(Act::UserDiag(i));
        }
    }
    v
}

fn base_cfg(periphs: Vec<PeriphCfg>, mon: Mon, acts: Vec<Act>) -> W4Cfg {
    let n = periphs.len();
    W4Cfg { rig: RigCfg::basic(periphs), slave_dev: vec![0; n], gc_every_visit: false, high_prio: false, acts, mon, dev_budget: 255, late_add: false }
}

/// Bus-parameter sweep: the same one- and two-peripheral worlds at every baud rate of the stack and at
/// slot times from the builder minimum to the largest value the builder accepts. The DP master
/// derives intervals from these parameters (Global_Control period, watchdog); arithmetic that is
/// only right for the slot time of the repository's tests (19200 baud, 100 bit) shows here
/// (found by two seeded changes).
pub fn param_sweep_plans(mon: Mon, acts1: Vec<Act>, acts2: Vec<Act>, tier: Tier) -> Vec<Plan> {
    let mut plans = vec![];
    for baud in 0..crate::dprig::BAUDS.len() as u8 {
        let min_slot = crate::w2::MIN_SLOT[baud as usize];
        let slots: Vec<Option<u16>> = tier.pick(vec![None, Some(min_slot.max(1311)), Some(u16::MAX)], vec![None, Some(min_slot.max(655)), Some(min_slot.max(1311)), Some(u16::MAX)]);
        for slot in slots {
            for n in tier.pick(vec![1usize], vec![1, 2]) {
                let ps = vec![PeriphCfg::simple(9, 2, 1), PeriphCfg::simple(11, 0, 2)];
                let mut cfg = base_cfg(ps[..n].to_vec(), mon, if n == 1 { acts1.clone() } else { acts2.clone() });
                cfg.rig.baud = baud;
                cfg.rig.slot_bits = slot;
                if n == 2 {
                    cfg.dev_budget = 2;
                }
                plans.push(Plan { label: format!("sweep {n}p baud#{baud} slot={slot:?}"), cfg, depth: tier.pick(5, 7), max_states: tier.pick(20_000, 300_000), secs: tier.pick(60.0, 1200.0) });
            }
        }
    }
    // clock origins: the master's clock an hour below zero, about to cross zero, about to cross 2^31 / 2^32
    // microseconds, at i32::MIN milliseconds, after 30 days (LongPause crosses the boundaries)
    for origin in [-3_600_000_000i64, -1_500, (1i64 << 31) - 1_500, (1i64 << 32) - 1_500, (i32::MIN as i64) * 1000, 30 * 86_400 * 1_000_000] {
        for baud in tier.pick(vec![1u8], vec![1, 3]) {
            let mut a = acts1.clone();
            if !a.contains(&Act::LongPause) {
                a.push(Act::LongPause);
            }
            let mut cfg = base_cfg(vec![PeriphCfg::simple(9, 2, 1)], mon, a);
            cfg.rig.baud = baud;
            cfg.rig.origin_us = origin;
            plans.push(Plan { label: format!("sweep 1p baud#{baud} clock origin {origin}us"), cfg, depth: tier.pick(5, 8), max_states: tier.pick(20_000, 300_000), secs: tier.pick(60.0, 1200.0) });
        }
    }
    plans
}

fn finish_mc(t: Totals, rule: &str, bounds: Value, witnesses: Vec<&'static str>, extra_evals: u64) -> ! {
    let mut ev = Evidence::default();
    ev.level = "model_checking";
    ev.states = t.states;
    ev.transitions = t.transitions;
    ev.traces_validated = t.validated;
    ev.evaluations = t.transitions + extra_evals;
    ev.distinct_nontrivial = t.states;
    ev.rule = rule.to_string();
    ev.samples = t.samples.clone();
    ev.exhaustive = t.caps.is_empty();
    ev.bounds = bounds;
    ev.caps_hit = t.caps.clone();
    ev.distinct_outcomes = t.states;
    ev.extra.insert("worlds".into(), json!(t.worlds));
    ev.extra.insert("worlds_closed".into(), json!(t.closed_worlds));
    ev.extra.insert("per_world".into(), json!(t.per_world));
    ev.required_witnesses = witnesses;
    ev.assumptions.push("the FDL layer's reply admission (SC, or response from the addressed station to this station) is emulated in direct drive; it is checked against the real FDL in C15/C04(b)".into());
    finish(ev)
}

const ALL_MALFORMED: [u8; 26] = [0, 1, 2, 3, 4, 5, 6, 7, 8, 9, 10, 11, 12, 13, 14, 15, 16, 17, 18, 19, 20, 21, 22, 23, 24, 25];

// ------------------------------------------------------------------------------------------------
// C03

pub fn run_c03(tier: Tier) -> ! {
    let c = ctx();
    // (1) watchdog builder: all multiples of 10 ms in 10 ms ..= 650 s
    let mut wd_evals = 0u64;
    for k in 1..=65000u64 {
        let ms = k * 10;
        wd_evals += 1;
        let r = catch(|| {
            let mut b = profirust::fdl::ParametersBuilder::new(2, profirust::Baudrate::B19200);
            b.watchdog_timeout(profirust::time::Duration::from_millis(ms));
            let p = b.build();
            (p.watchdog_factors, p.watchdog_timeout().map(|d| d.total_millis()))
        });
        match r {
            Err(p) => {
                c.violation("c03.watchdog_builder.panic", format!("watchdog_timeout({ms} ms): {}", p.msg), json!({"kind":"watchdog","ms":ms}), ms);
            }
            Ok((Some((f1, f2)), Some(total))) => {
                if f1 == 0 || f2 == 0 || (f1 as u64) * (f2 as u64) * 10 < ms || total != (f1 as u64) * (f2 as u64) * 10 {
                    c.violation("c03.watchdog_builder.factors", format!("{ms} ms -> factors ({f1},{f2}) = {total} ms"), json!({"kind":"watchdog","ms":ms}), ms);
                }
            }
            Ok(o) => {
                c.violation("c03.watchdog_builder.none", format!("{ms} ms -> {o:?}"), json!({"kind":"watchdog","ms":ms}), ms);
            }
        }
    }
    // non-multiples: only "no panic"
    for ms in [11u64, 15, 19, 25, 1001, 2559, 649_999] {
        if let Err(p) = catch(|| {
            let mut b = profirust::fdl::ParametersBuilder::new(2, profirust::Baudrate::B19200);
            b.watchdog_timeout(profirust::time::Duration::from_millis(ms));
        }) {
            c.violation("c03.watchdog_builder.panic", format!("watchdog_timeout({ms} ms): {}", p.msg), json!({"kind":"watchdog","ms":ms}), ms);
        }
    }

    let mut plans = vec![];
    // (2) deep exploration, one peripheral, three slave deviations
    for dev in 0..3u8 {
        let mut cfg = base_cfg(vec![PeriphCfg::simple(9, 2, 1)], Mon::C03, std_acts(1, &ALL_MALFORMED, true));
        cfg.slave_dev = vec![dev];
        plans.push(Plan { label: format!("1p dev{dev}"), cfg, depth: tier.pick(8, 40), max_states: tier.pick(400_000, 5_000_000), secs: tier.pick(150.0, 4000.0) });
    }
    // (3) two / three peripherals
    {
        let mal: Vec<u8> = tier.pick(vec![0, 2, 8, 16, 17], vec![0, 1, 2, 5, 8, 12, 16, 17]);
        let mut cfg = base_cfg(vec![PeriphCfg::simple(9, 2, 1), PeriphCfg::simple(11, 1, 2)], Mon::C03, std_acts(2, &mal, true));
        cfg.dev_budget = tier.pick(255, 3);
        plans.push(Plan { label: "2p".into(), cfg, depth: tier.pick(6, 14), max_states: tier.pick(300_000, 4_000_000), secs: tier.pick(150.0, 4000.0) });
        if tier == Tier::Thorough {
            let mut cfg = base_cfg(vec![PeriphCfg::simple(9, 2, 1), PeriphCfg::simple(11, 1, 2), PeriphCfg::simple(4, 0, 0)], Mon::C03, std_acts(3, &[0, 2, 8, 16], false));
            cfg.dev_budget = 2;
            plans.push(Plan { label: "3p".into(), cfg, depth: 10, max_states: 3_000_000, secs: tier.pick(60.0, 2400.0) });
        }
    }
    // (4) option grid, fault-free bring-up plus one power cycle (checks the Set_Prm / Chk_Cfg bytes)
    let corners = tier == Tier::Quick;
    let bools: &[bool] = &[false, true];
    let groups: &[u8] = if corners { &[0, 0xFF] } else { &[0, 1, 0x80, 0xFF] };
    let idents: &[u16] = if corners { &[0x1337, 0xFFFF] } else { &[0, 0x1337, 0xFFFF] };
    let prm_lens: &[usize] = if corners { &[0, 237] } else { &[0, 1, 3, 237] };
    let cfg_lens: &[usize] = if corners { &[1, 244] } else { &[1, 2, 64, 244] };
    let tsdrs: &[u8] = &[11, 255];
    let wds: &[Option<u64>] = if corners { &[None, Some(650_000)] } else { &[None, Some(10), Some(2550), Some(2560), Some(650_000)] };
    let mut grid = 0;
    for sync in bools {
        for freeze in bools {
            if corners && sync != freeze {
                continue;
            }
            for g in groups {
                for id in idents {
                    for pl in prm_lens {
                        for cl in cfg_lens {
                            for ts in tsdrs {
                                for wd in wds {
                                    let p = PeriphCfg {
                                        addr: 9,
                                        ident: *id,
                                        sync: *sync,
                                        freeze: *freeze,
                                        groups: *g,
                                        user_prm: Some((0..*pl).map(|i| (i as u8) ^ 0x5A).collect()),
                                        config: Some((0..*cl).map(|i| (i as u8).wrapping_mul(3) | 1).collect()),
                                        in_len: 2,
                                        out_len: 1,
                                        diag_buf: Some(8),
                                    };
                                    let mut cfg = base_cfg(vec![p], Mon::C03, vec![Act::Answer, Act::PowerCycle]);
                                    cfg.rig.min_tsdr = *ts;
                                    cfg.rig.watchdog_ms = *wd;
                                    cfg.dev_budget = 1;
                                    grid += 1;
                                    plans.push(Plan { label: format!("grid{grid}"), cfg, depth: 12, max_states: 10_000, secs: 120.0 });
                                }
                            }
                        }
                    }
                }
            }
        }
    }
    let t = explore(plans, tier.pick(400.0, 14400.0), &|w| {
        if w.acts.len() > 4 {
            ctx().witness("c03_state_beyond_bringup");
        }
    });
    // vacuity: data exchange must have been reached somewhere — re-run the default bring-up
    {
        let cfg = Arc::new(base_cfg(vec![PeriphCfg::simple(9, 2, 1)], Mon::C03, vec![Act::Answer]));
        let mut e = Exec::new(&cfg);
        for _ in 0..8 {
            e.apply(Act::Answer);
        }
        if e.mon.per[0].phase == 4 && e.rig.periph(0).is_running() {
            c.witness("c03_data_exchange_reached");
        }
    }
    finish_mc(
        t,
        "BFS over the joint state (real DpMaster, reference slaves, outstanding request, bring-up phase automaton); transitions = environment answers (answered / request lost / reply lost / token lost / power cycle / fault flags / 26 catalogue replies / user diagnostics request); states deduplicated on a canonical fingerprint; plus the option grid (fault-free bring-up + one power cycle) and all 65000 watchdog values",
        json!({"one_peripheral_depth": tier.pick(8, 40), "two_peripherals_depth": tier.pick(6, 14), "option_grid_worlds": grid, "watchdog_values": 65000}),
        vec!["c03_data_exchange_reached", "c03_state_beyond_bringup"],
        wd_evals,
    )
}

// ------------------------------------------------------------------------------------------------
// C04

pub fn run_c04(tier: Tier) -> ! {
    let lens: &[usize] = &[0, 1, 2, 8, 9, 243, 244];
    let mut plans = vec![];
    let dx_malformed: Vec<u8> = vec![0, 1, 2, 6, 7, 8, 9, 10, 11, 12, 13, 14, 15, 19];
    for q in lens {
        for i in lens {
            let mut acts = vec![Act::Answer, Act::ReplyLost, Act::DiagPending];
            for p in tier.pick(vec![2u8, 3], vec![1, 2, 3]) {
                acts.push(Act::UserWrite(0, p));
                acts.push(Act::InputChange(p));
            }
            for k in &dx_malformed {
                acts.push(Act::Malformed(*k));
            }
            acts.push(Act::UserDiag(0));
            let mut p = PeriphCfg::simple(9, *i, *q);
            p.diag_buf = Some(8);
            let cfg = base_cfg(vec![p], Mon::C04, acts);
            plans.push(Plan { label: format!("1p q{q} i{i}"), cfg, depth: tier.pick(8, 11), max_states: tier.pick(60_000, 1_000_000), secs: tier.pick(60.0, 2400.0) });
        }
    }
    // user call reset_address() (to the same address): "the process images are not changed by this
    // operation" — and after the new bring-up the outputs on the wire are still the current output image and
    // replies still land in the input image (found by a seeded change that swapped the two buffers)
    for (q, i) in [(2usize, 1usize), (1, 2), (3, 3), (0, 2), (2, 0), (244, 1)] {
        let acts = vec![Act::Answer, Act::ReplyLost, Act::ResetAddr(0), Act::UserWrite(0, 2), Act::UserWrite(0, 3), Act::InputChange(2), Act::Malformed(12)];
        let cfg = base_cfg(vec![PeriphCfg::simple(9, i, q)], Mon::C04, acts);
        plans.push(Plan { label: format!("1p q{q} i{i} reset_address"), cfg, depth: tier.pick(9, 13), max_states: tier.pick(60_000, 1_000_000), secs: tier.pick(60.0, 2400.0) });
    }
    // token always late: the master only ever gets high-priority-only turns (the Global_Control broadcast is
    // never sent); the outputs must still be the current image
    for (q, i) in [(2usize, 1usize), (8, 0), (1, 9)] {
        let acts = vec![Act::Answer, Act::ReplyLost, Act::UserWrite(0, 2), Act::UserWrite(0, 3), Act::InputChange(2), Act::Malformed(12), Act::Malformed(0)];
        let mut cfg = base_cfg(vec![PeriphCfg::simple(9, i, q)], Mon::C04, acts);
        cfg.high_prio = true;
        plans.push(Plan { label: format!("1p q{q} i{i} high-priority-only turns"), cfg, depth: tier.pick(8, 11), max_states: tier.pick(60_000, 1_000_000), secs: tier.pick(60.0, 2400.0) });
    }
    // two / three peripherals: images of the other peripherals must stay untouched
    {
        let acts = vec![Act::Answer, Act::ReplyLost, Act::UserWrite(0, 2), Act::UserWrite(1, 3), Act::InputChange(2), Act::Malformed(12), Act::Malformed(14), Act::Malformed(0), Act::Malformed(8)];
        let cfg = base_cfg(vec![PeriphCfg::simple(9, 2, 1), PeriphCfg::simple(11, 2, 1)], Mon::C04, acts.clone());
        plans.push(Plan { label: "2p".into(), cfg, depth: tier.pick(10, 16), max_states: tier.pick(200_000, 3_000_000), secs: tier.pick(60.0, 2400.0) });
        if tier == Tier::Thorough {
            let cfg = base_cfg(vec![PeriphCfg::simple(9, 2, 1), PeriphCfg::simple(11, 2, 1), PeriphCfg::simple(4, 0, 3)], Mon::C04, acts);
            plans.push(Plan { label: "3p".into(), cfg, depth: 18, max_states: 3_000_000, secs: tier.pick(60.0, 2400.0) });
        }
    }
    let mut t = explore(plans, tier.pick(400.0, 14400.0), &|_w| {});
    // drive mode (b): under a real FdlActiveStation, with stray / foreign telegrams as answers
    let (runs, reqs) = crate::props::w2props::c04_images_under_fdl(tier);
    t.states += runs;
    t.transitions += reqs;
    t.validated += runs;
    t.per_world.push(json!({"world": "drive mode (b): DpMaster under a real FdlActiveStation, answer sequences with bounded deviations (foreign source/destination, request echo, token, garbage, truncated, SC, silence, RR, 244 bytes)", "executions": runs, "requests_answered": reqs}));
    finish_mc(
        t,
        "BFS over (real DpMaster, reference slave, process images) for all 49 (output, input) length pairs; transitions = answered / reply lost / user writes of 3 patterns / input changes / 14 catalogue replies (every response status, SC, length +-1, 244 bytes) / diagnostics; images compared before and after every callback",
        json!({"length_pairs": 49, "depth": tier.pick(8, 11), "two_peripherals_depth": tier.pick(10, 16)}),
        vec!["c04_good_update", "c04_bad_reply_rejected", "c04_sc_update", "c04_under_fdl_data_exchange_reached"],
        0,
    )
}

// ------------------------------------------------------------------------------------------------
// C07

/// Fault-free continuation from the state reached by `acts`.
thread_local! { static C07_LAST_K: std::cell::Cell<u32> = std::cell::Cell::new(0); }
pub static C07_MAX_STEPS: std::sync::atomic::AtomicU64 = std::sync::atomic::AtomicU64::new(0);
#[allow(clippy::declare_interior_mutable_const)]
const Z: std::sync::atomic::AtomicU64 = std::sync::atomic::AtomicU64::new(0);
pub static C07_MAX_BY_RETRY: [std::sync::atomic::AtomicU64; 16] = [Z; 16];
pub static C07_MAX_RETURN_BY_RETRY: [std::sync::atomic::AtomicU64; 16] = [Z; 16];
pub static C07_MAX_CYCLES_BY_RETRY: [std::sync::atomic::AtomicU64; 16] = [Z; 16];
pub static C07_MAX_RETURN_CYCLES_BY_RETRY: [std::sync::atomic::AtomicU64; 16] = [Z; 16];

pub fn c07_continuation(cfg: &Arc<W4Cfg>, acts: &[Act]) -> Result<u32, (String, String)> {
    let n = cfg.rig.periphs.len();
    let max_retry = cfg.rig.max_retry as u32;
    // one full retry run that may still have to fail (max_retry+1 transmissions) plus offline probe,
    // diagnostics, Set_Prm, Chk_Cfg, diagnostics, Data_Exchange and three requests of slack, per peripheral:
    // in a fault-free continuation nothing else can cost a request (measured: max_retry + 5)
    let budget = (n as u32) * ((max_retry + 1) + 8);
    let mut e = run_path(cfg, acts);
    if e.dead {
        return Ok(0);
    }
    let start_dx: Vec<u32> = e.dx_events.clone();
    let mut steps = 0;
    let mut ok_at = None;
    // the same bound in DP cycles ('cycle completed' reports): every cycle gives every peripheral one turn, so
    // the number of peripherals does not enter; an offline peripheral that sits out cycles shows here and not
    // in the request count
    let cycles0 = e.mon.cycles_completed;
    // (+4: a conforming slave may report 'station not ready' for a few diagnostics rounds)
    let cycle_bound = (max_retry + 1) + 12;
    while steps < budget + 3 * n as u32 + 3 {
        e.apply(Act::Answer);
        steps += 1;
        if e.dead {
            let why = e.died_of.clone().unwrap_or_else(|| "harness assumption broken".into());
            let sig = e.died_of.as_ref().map(|d| d.split(' ').next().unwrap().to_string()).unwrap_or_default();
            return Err((format!("c07.continuation_died.{sig}"), format!("fault-free continuation ended after {steps} steps: {why}")));
        }
        // "back in cyclic data exchange" is judged on BOTH sides: the master reports running + DataExchanged,
        // and the (conforming) slave is in its data-exchange state — not still waiting for parameters while
        // the master takes its refusals for confirmations
        let present = |i: usize| !matches!(cfg.slave_dev.get(i).copied(), Some(3) | Some(4));
        let all = (0..n).filter(|i| present(*i)).all(|i| e.rig.periph(i).is_running() && e.dx_events[i] > start_dx[i] && e.slaves[i].state == crate::dprig::SlaveState::DataExch);
        if all && ok_at.is_none() {
            ok_at = Some(steps);
            C07_MAX_CYCLES_BY_RETRY[(max_retry as usize).min(15)].fetch_max((e.mon.cycles_completed - cycles0) as u64, std::sync::atomic::Ordering::Relaxed);
        }
        if ok_at.is_none() && (e.mon.cycles_completed - cycles0) as u32 > cycle_bound {
            let st: Vec<String> = (0..n).map(|i| format!("#{}: live={} running={} slave state {:?}", cfg.rig.periphs[i].addr, e.rig.periph(i).is_live(), e.rig.periph(i).is_running(), e.slaves[i].state)).collect();
            return Err(("c07.healthy_peripheral_not_recovered.cycles".into(), format!("after {} fault-free DP cycles (bound: max_retry+1+12 = {cycle_bound}): {}", e.mon.cycles_completed - cycles0, st.join(", "))));
        }
        if let Some(s) = ok_at {
            if !(0..n).filter(|i| present(*i)).all(|i| e.rig.periph(i).is_running()) {
                return Err(("c07.not_stable".into(), format!("a peripheral left data exchange again {steps} steps into the fault-free continuation (first complete at {s})")));
            }
            if steps >= s + 3 * n as u32 {
                C07_MAX_STEPS.fetch_max(((max_retry as u64) << 32) | s as u64 & 0xffff_ffff, std::sync::atomic::Ordering::Relaxed);
                let idx = (max_retry as usize).min(15);
                C07_MAX_BY_RETRY[idx].fetch_max(s as u64, std::sync::atomic::Ordering::Relaxed);
                return Ok(s);
            }
        } else if steps > budget {
            let st: Vec<String> = (0..n).map(|i| format!("#{}: live={} running={} slave state {:?}", cfg.rig.periphs[i].addr, e.rig.periph(i).is_live(), e.rig.periph(i).is_running(), e.slaves[i].state)).collect();
            return Err(("c07.healthy_peripheral_not_recovered".into(), format!("after {budget} fault-free master requests: {}", st.join(", "))));
        }
    }
    Ok(ok_at.unwrap_or(0))
}

/// Silence peripheral 0, expect Offline; let it answer again, expect Online then Configured.
pub fn c07_silence(cfg: &Arc<W4Cfg>, acts: &[Act]) -> Result<bool, (String, String)> {
    let n = cfg.rig.periphs.len();
    let max_retry = cfg.rig.max_retry as u32;
    let mut last = Ok(false);
    // (the master cannot be cloned: every variant re-executes the history and the silence phase)
    for extra_silent in 0..3u32 {
        let mut e = match c07_silence_until_offline(cfg, acts)? {
            Some(e) => e,
            None => return Ok(false),
        };
        // the peripheral stays away for a little longer: one and two offline probes go unanswered as well (an
        // offline peripheral must keep being probed every cycle — found by a seeded change that let it sit out
        // max_retry-1 cycles after every unanswered probe)
        let mut lost = 0;
        let mut guard = 0;
        while lost < extra_silent && guard < 20 * (n as u32 + max_retry) {
            let to0 = matches!(&e.outstanding, Some((0, _)));
            e.apply(if to0 { Act::ReqLost } else { Act::Answer });
            guard += 1;
            if to0 {
                lost += 1;
            }
            if e.dead {
                break;
            }
        }
        if e.dead {
            continue;
        }
        if lost < extra_silent {
            return Err(("c07.offline_peripheral_not_probed".into(), format!("peripheral 0 is offline but was probed only {lost} times in {guard} steps")));
        }
        last = c07_return(e, n, max_retry);
        if last.is_err() {
            return last;
        }
    }
    last
}

fn c07_silence_until_offline(cfg: &Arc<W4Cfg>, acts: &[Act]) -> Result<Option<Exec>, (String, String)> {
    let n = cfg.rig.periphs.len();
    let max_retry = cfg.rig.max_retry as u32;
    let mut e = run_path(cfg, acts);
    if e.dead || !e.rig.periph(0).is_live() {
        return Ok(None);
    }
    let mark = e.events_log.len();
    let mut turns_for_0 = 0;
    let mut steps = 0;
    while e.rig.periph(0).is_live() {
        let to0 = matches!(&e.outstanding, Some((0, _)));
        if to0 {
            turns_for_0 += 1;
        }
        e.apply(if to0 { Act::ReqLost } else { Act::Answer });
        steps += 1;
        if e.dead {
            let why = e.died_of.clone().unwrap_or_else(|| "harness assumption broken".into());
            let sig = e.died_of.as_ref().map(|d| d.split(' ').next().unwrap().to_string()).unwrap_or_default();
            return Err((format!("c07.silence_died.{sig}"), format!("branch ended while the peripheral was silent: {why}")));
        }
        if turns_for_0 > max_retry + 2 || steps > 40 * n as u32 {
            return Err(("c07.silent_peripheral_not_offline".into(), format!("peripheral 0 silent for {turns_for_0} requests but still live")));
        }
    }
    if !e.events_log[mark..].iter().any(|(i, ev)| *i == 0 && *ev == PeripheralEvent::Offline) {
        return Err(("c07.no_offline_event".into(), "peripheral 0 went offline without an Offline event".into()));
    }
    Ok(Some(e))
}

fn c07_return(mut e: Exec, n: usize, max_retry: u32) -> Result<bool, (String, String)> {
    // the silent slave lost nothing (it simply did not see the requests); now it answers again
    let mark = e.events_log.len();
    // a returning peripheral is probed once per cycle and needs diagnostics, Set_Prm, Chk_Cfg, diagnostics,
    // Data_Exchange: five requests (= cycles) plus three of slack, whatever the retry limit (nothing is lost any more)
    let budget = (n as u32) * 8;
    let cycles0 = e.mon.cycles_completed;
    for k in 0..budget {
        e.apply(Act::Answer);
        if e.dead {
            let why = e.died_of.clone().unwrap_or_else(|| "harness assumption broken".into());
            let sig = e.died_of.as_ref().map(|d| d.split(' ').next().unwrap().to_string()).unwrap_or_default();
            return Err((format!("c07.recovery_died.{sig}"), format!("branch ended during recovery: {why}")));
        }
        C07_LAST_K.with(|c| c.set(k));
        if e.mon.cycles_completed - cycles0 > 10 {
            return Err(("c07.no_online_configured_after_return.cycles".into(), format!("peripheral 0 answers again for {} DP cycles (bound 10) but Online+Configured+running were not reached", e.mon.cycles_completed - cycles0)));
        }
        let evs: Vec<PeripheralEvent> = e.events_log[mark..].iter().filter(|(i, _)| *i == 0).map(|x| x.1).collect();
        let on = evs.iter().position(|x| *x == PeripheralEvent::Online);
        let cf = evs.iter().position(|x| *x == PeripheralEvent::Configured);
        if let (Some(a), Some(b)) = (on, cf) {
            if a < b && e.rig.periph(0).is_running() {
                C07_MAX_RETURN_CYCLES_BY_RETRY[(max_retry as usize).min(15)].fetch_max((e.mon.cycles_completed - cycles0) as u64, std::sync::atomic::Ordering::Relaxed);
                C07_MAX_RETURN_BY_RETRY[(max_retry as usize).min(15)].fetch_max(C07_LAST_K.with(|c| c.get()) as u64 + 1, std::sync::atomic::Ordering::Relaxed);
                return Ok(true);
            }
        }
    }
    Err(("c07.no_online_configured_after_return".into(), "peripheral 0 answered again but Online+Configured+running were not reached".into()))
}

pub fn run_c07(tier: Tier) -> ! {
    let mut plans = vec![];
    let mal1: Vec<u8> = tier.pick(vec![0, 1, 2, 5, 8, 12, 16, 17], ALL_MALFORMED.to_vec());
    // an output-only peripheral (no inputs: it confirms Data_Exchange with SC) and an input-only one
    for (i, q) in [(0usize, 2usize), (3, 0)] {
        let mal: Vec<u8> = vec![0, 1, 2, 8, 12, 16];
        let cfg = base_cfg(vec![PeriphCfg::simple(11, i, q)], Mon::C07, std_acts(1, &mal, true));
        plans.push(Plan { label: format!("1p in{i} out{q}"), cfg, depth: tier.pick(8, 14), max_states: tier.pick(150_000, 3_000_000), secs: tier.pick(60.0, 2400.0) });
    }
    for retry in tier.pick(vec![1u8], vec![1, 2, 3]) {
        let mut a1 = std_acts(1, &mal1, true);
        // user call: reset_address() (to the same address) at any point, also with a request outstanding
        a1.push(Act::ResetAddr(0));
        let mut cfg = base_cfg(vec![PeriphCfg::simple(9, 2, 1)], Mon::C07, a1);
        cfg.rig.max_retry = retry;
        plans.push(Plan { label: format!("1p retry{retry}"), cfg, depth: tier.pick(10, 30), max_states: tier.pick(150_000, 3_000_000), secs: tier.pick(60.0, 2400.0) });
    }
    {
        let mut cfg = base_cfg(vec![PeriphCfg::simple(9, 2, 1), PeriphCfg::simple(11, 0, 2)], Mon::C07, std_acts(2, &[0, 2, 8, 16], true));
        cfg.dev_budget = tier.pick(2, 3);
        plans.push(Plan { label: "2p".into(), cfg, depth: tier.pick(8, 14), max_states: tier.pick(100_000, 2_000_000), secs: tier.pick(60.0, 2400.0) });
    }
    plans.extend(param_sweep_plans(Mon::C07, std_acts(1, &[0, 8, 16], true), std_acts(2, &[8], true), tier));
    // larger retry limits with a narrow alphabet (loss runs of any length at any point of the life cycle)
    for retry in tier.pick(vec![2u8, 4, 8, 15], vec![2, 3, 4, 5, 6, 8, 11, 15]) {
        let mut cfg = base_cfg(vec![PeriphCfg::simple(9, 2, 1)], Mon::C07, vec![Act::Answer, Act::ReqLost, Act::ReplyLost, Act::PowerCycle]);
        cfg.rig.max_retry = retry;
        plans.push(Plan { label: format!("1p loss runs retry{retry}"), cfg, depth: retry as usize + tier.pick(7, 12), max_states: tier.pick(100_000, 2_000_000), secs: tier.pick(60.0, 2400.0) });
    }
    // many peripherals, some of which do not exist: the stations that are there come up and come back
    // regardless of how many configured stations stay silent and of where they sit in the storage
    // (found by a seeded change: a probe budget per cycle that absent stations in low slots used up)
    {
        let addrs: [u8; 8] = [9, 11, 4, 30, 14, 17, 60, 125];
        let layouts: Vec<(usize, Vec<usize>)> = tier.pick(
            vec![(5, vec![0, 1, 2, 3]), (6, vec![0, 1, 2, 3, 5]), (8, vec![1, 2, 4, 5, 6])],
            vec![(5, vec![0, 1, 2, 3]), (6, vec![0, 1, 2, 3, 5]), (8, vec![1, 2, 4, 5, 6]), (8, vec![0, 1, 2, 3, 4, 5, 6]), (8, vec![]), (7, vec![6]), (5, vec![4])],
        );
        for (n, absent) in layouts {
            let ps: Vec<PeriphCfg> = (0..n).map(|i| PeriphCfg::simple(addrs[i], (i % 3) as usize, ((i + 1) % 3) as usize)).collect();
            let mut cfg = base_cfg(ps, Mon::C07, vec![Act::Answer, Act::ReqLost, Act::PowerCycle, Act::Malformed(8)]);
            for a in &absent {
                cfg.slave_dev[*a] = 3;
            }
            if n == 6 {
                // one of the stations that do answer belongs to another master
                cfg.slave_dev[4] = 4;
            }
            cfg.dev_budget = tier.pick(1, 2);
            plans.push(Plan { label: format!("{n}p absent{absent:?}"), cfg, depth: tier.pick(3 * n, 4 * n + 4), max_states: tier.pick(50_000, 1_000_000), secs: tier.pick(60.0, 2400.0) });
        }
    }
    let t = explore(plans, tier.pick(400.0, 14400.0), &|w| {
        if w.dead {
            return;
        }
        let report = |sig: String, detail: String, acts: &[Act], kind: &str| {
            ctx().violation(
                sig,
                format!("{detail} [history: {}]", acts.iter().map(|a| a.name()).collect::<Vec<_>>().join(" ")),
                json!({"world": "w4", "cfg": cfg_to_json(&w.cfg), "path": acts.iter().map(|a| a.name()).collect::<Vec<_>>(), "then": kind}),
                acts.len() as u64,
            );
        };
        match c07_continuation(&w.cfg, &w.acts) {
            Ok(s) => {
                if s > 0 {
                    ctx().witness("c07_recovered");
                }
            }
            Err((sig, d)) => report(sig, d, &w.acts, "fault-free continuation"),
        }
        match c07_silence(&w.cfg, &w.acts) {
            Ok(true) => ctx().witness("c07_offline_then_back"),
            Ok(false) => {}
            Err((sig, d)) => report(sig, d, &w.acts, "silence peripheral 0, then let it answer again"),
        }
    });
    {
        let a: Vec<u64> = C07_MAX_BY_RETRY.iter().map(|x| x.load(std::sync::atomic::Ordering::Relaxed)).collect();
        let b: Vec<u64> = C07_MAX_RETURN_BY_RETRY.iter().map(|x| x.load(std::sync::atomic::Ordering::Relaxed)).collect();
        let c: Vec<u64> = C07_MAX_CYCLES_BY_RETRY.iter().map(|x| x.load(std::sync::atomic::Ordering::Relaxed)).collect();
        let d: Vec<u64> = C07_MAX_RETURN_CYCLES_BY_RETRY.iter().map(|x| x.load(std::sync::atomic::Ordering::Relaxed)).collect();
        ctx().note(format!("the same in DP cycles: fault-free continuation {c:?} (bound max_retry+13), after a silent peripheral answered again {d:?} (bound 10)"));
        ctx().note(format!("largest number of fault-free requests until every present peripheral was back in data exchange, by max_retry_limit (index): {a:?}; after a silent peripheral answered again: {b:?}"));
    }
    finish_mc(
        t,
        "BFS over the joint state space of C03 (loss / corruption / power-cycle / fault-flag / user-call histories); from EVERY discovered state two deterministic continuations are executed on the real master: (a) fault-free with a conforming slave — running + DataExchanged within (retry+1)+8 requests per peripheral and (retry+1)+12 DP cycles, stable for 3 further cycles; (b) peripheral 0 silent until Offline, then answering again until Online, Configured and running within 8 requests per peripheral and 10 DP cycles",
        json!({"one_peripheral_depth": tier.pick(10, 30), "two_peripherals_depth": tier.pick(8, 14), "continuation_budget_per_peripheral": "(max_retry+1)+8; after a silent peripheral returns: 8"}),
        vec!["c07_recovered", "c07_offline_then_back"],
        0,
    )
}

// ------------------------------------------------------------------------------------------------
// C08

pub fn run_c08(tier: Tier) -> ! {
    let mut plans = vec![];
    for retry in tier.pick(vec![1u8, 2], vec![1, 2, 3, 15]) {
        let mal: Vec<u8> = tier.pick(vec![0, 1, 2, 5, 8, 12, 14], ALL_MALFORMED.to_vec());
        let mut acts = std_acts(1, &mal, true);
        acts.push(Act::UserWrite(0, 2));
        let mut cfg = base_cfg(vec![PeriphCfg::simple(9, 2, 1)], Mon::C08, acts);
        cfg.rig.max_retry = retry;
        let depth = match (tier, retry) { (Tier::Quick, _) => 10, (_, 1) => 30, (_, 2) => 16, (_, 3) => 14, _ => 12 };
        plans.push(Plan { label: format!("1p retry{retry}"), cfg, depth, max_states: tier.pick(200_000, 4_000_000), secs: tier.pick(60.0, 2400.0) });
    }
    // every admissible retry limit (1..=15) with a narrow alphabet: loss runs of any length at any point of
    // the life cycle (the state space stays small because the retry counter is the only thing that grows)
    for retry in 1u8..=15 {
        let acts = vec![Act::Answer, Act::ReqLost, Act::ReplyLost, Act::UserDiag(0), Act::Malformed(0)];
        let mut cfg = base_cfg(vec![PeriphCfg::simple(9, 2, 1)], Mon::C08, acts);
        cfg.rig.max_retry = retry;
        plans.push(Plan { label: format!("1p loss runs retry{retry}"), cfg, depth: retry as usize + tier.pick(9, 14), max_states: tier.pick(200_000, 4_000_000), secs: tier.pick(30.0, 1200.0) });
    }
    for np in tier.pick(vec![2usize], vec![2, 3]) {
        let periphs: Vec<PeriphCfg> = [PeriphCfg::simple(9, 2, 1), PeriphCfg::simple(11, 0, 2), PeriphCfg::simple(4, 1, 0)][..np].to_vec();
        let mut cfg = base_cfg(periphs, Mon::C08, std_acts(np as u8, &[0, 7, 8, 12], true));
        cfg.dev_budget = tier.pick(3, 3);
        plans.push(Plan { label: format!("{np}p"), cfg, depth: tier.pick(9, 14), max_states: tier.pick(200_000, 4_000_000), secs: tier.pick(60.0, 2400.0) });
    }
    // endurance: the frame count bit over 80 000 (thorough 300 000) consecutive requests — with rare losses, power
    // cycles and user calls (retry limits 1 and 3), and fault-free
    [(1u8, true), (3, true), (1, false)].par_iter().for_each(|(retry, faults)| {
        let mut cfg = base_cfg(vec![PeriphCfg::simple(9, 2, 1)], Mon::C08, vec![Act::Answer]);
        cfg.rig.max_retry = *retry;
        let (steps, cycles) = endurance_run(&Arc::new(cfg), tier.pick(80_000, 300_000), *faults);
        ctx().note(format!("endurance run with max_retry_limit {retry}, {}: {steps} requests, {cycles} DP cycles", if *faults { "rare losses / power cycles / user calls" } else { "fault-free" }));
        if steps >= tier.pick(80_000, 300_000) {
            ctx().witness("c08_endurance_run");
        }
    });
    let t = explore(plans, tier.pick(400.0, 14400.0), &|w| {
        if w.acts.len() > 5 {
            ctx().witness("c08_deep_state");
        }
    });
    // independent cross-check of the explorer: the same depth-bounded world as a stateright Model
    {
        let d = tier.pick(5usize, 7);
        let mal: Vec<u8> = tier.pick(vec![0, 1, 2, 5, 8, 12, 14], ALL_MALFORMED.to_vec());
        let mut acts = std_acts(1, &mal, true);
        acts.push(Act::UserWrite(0, 2));
        let cfg = Arc::new(base_cfg(vec![PeriphCfg::simple(9, 2, 1)], Mon::C08, acts));
        let ours = bfs(vec![W4World::init(&cfg)], &BfsOpts { max_depth: d, max_states: 10_000_000, max_secs: 600.0 }, |_, _| {});
        let theirs = crate::xcheck::dp_unique_states(&cfg, d);
        if ours.states as usize != theirs {
            machinery_failure(&format!("explorer cross-check failed: in-house BFS found {} states to depth {d}, stateright {theirs}", ours.states));
        }
        ctx().note(format!("stateright cross-check: {} unique states to depth {d} in both explorers", theirs));
        ctx().witness("c08_stateright_cross_check_agrees");
    }
    finish_mc(
        t,
        "BFS over the joint state space (real DpMaster, reference slaves, per-destination frame-count monitor as history variables); transitions as C03 plus user calls at every point; oracle on the function-code byte and full bytes of consecutive requests per destination and on Offline events",
        json!({"max_retry_limits": tier.pick(vec![1, 2], vec![1, 2, 3, 15]), "loss_run_worlds_retry_limits": "1..=15", "one_peripheral_depth": tier.pick("10", "30 / 16 / 14 / 12 for retry limit 1 / 2 / 3 / 15"), "multi_peripheral_depth": tier.pick(9, 14)}),
        vec!["c08_deep_state", "c08_stateright_cross_check_agrees", "c08_endurance_run"],
        0,
    )
}

// ------------------------------------------------------------------------------------------------
// C14

pub fn run_c14(tier: Tier) -> ! {
    let mut plans = vec![];
    let ps = [PeriphCfg::simple(9, 2, 1), PeriphCfg::simple(11, 0, 2), PeriphCfg::simple(4, 1, 0), PeriphCfg::simple(30, 3, 3)];
    let max_n = tier.pick(2usize, 4);
    for n in 0..=max_n {
        for fixed in [None, Some(4usize)] {
            for gc in [false, true] {
                for hp in [false, true] {
                    if tier == Tier::Quick && hp && gc {
                        continue;
                    }
                    let mut acts = vec![Act::Answer, Act::ReqLost, Act::ReplyLost, Act::NoCallback, Act::PowerCycle, Act::Malformed(7), Act::Malformed(8), Act::Malformed(16), Act::LongPause];
                    for i in 0..n as u8 {
                        acts.push(Act::UserDiag(i));
                    }
                    // the last peripheral may also be added while the master is already running
                    let late = n >= 1 && !gc && !hp;
                    if late {
                        let mut acts2 = acts.clone();
                        acts2.push(Act::AddLate);
                        let mut cfg2 = base_cfg(ps[..n].to_vec(), Mon::C14, acts2);
                        cfg2.rig.fixed_slots = fixed;
                        cfg2.late_add = true;
                        cfg2.dev_budget = if n >= 2 { 3 } else { 255 };
                        plans.push(Plan { label: format!("{n}p fixed={fixed:?} late-add"), cfg: cfg2, depth: tier.pick(8, 12), max_states: tier.pick(60_000, 1_000_000), secs: tier.pick(60.0, 2400.0) });
                    }
                    let mut cfg = base_cfg(ps[..n].to_vec(), Mon::C14, acts);
                    cfg.rig.fixed_slots = fixed;
                    cfg.gc_every_visit = gc;
                    cfg.high_prio = hp;
                    if n >= 3 {
                        cfg.dev_budget = 3;
                    }
                    let depth = match n {
                        0 => 4,
                        1 => tier.pick(10, 20),
                        2 => tier.pick(10, 14),
                        _ => 14,
                    };
                    plans.push(Plan { label: format!("{n}p fixed={fixed:?} gc={gc} hp={hp}"), cfg, depth, max_states: tier.pick(60_000, 1_500_000), secs: tier.pick(60.0, 2400.0) });
                }
            }
        }
    }
    {
        let a = |n: u8| {
            let mut acts = vec![Act::Answer, Act::ReqLost, Act::ReplyLost, Act::NoCallback, Act::PowerCycle, Act::Malformed(8), Act::LongPause];
            for i in 0..n {
                acts.push(Act::UserDiag(i));
            }
            acts
        };
        plans.extend(param_sweep_plans(Mon::C14, a(1), a(2), tier));
        // user call: enter_operate() again on the running master, at any point of a DP cycle (also between the
        // transmission of a request and its reply), two and three peripherals, Vec and fixed storage
        for (n, fixed) in [(2usize, None), (2, Some(4usize)), (3, None)] {
            let ps = vec![PeriphCfg::simple(9, 2, 1), PeriphCfg::simple(11, 0, 2), PeriphCfg::simple(4, 1, 0)];
            let mut cfg = base_cfg(ps[..n].to_vec(), Mon::C14, vec![Act::Answer, Act::ReqLost, Act::EnterOperate, Act::UserDiag(0), Act::PowerCycle]);
            cfg.rig.fixed_slots = fixed;
            plans.push(Plan { label: format!("{n}p fixed={fixed:?} enter_operate again"), cfg, depth: tier.pick(10, 14), max_states: tier.pick(100_000, 1_500_000), secs: tier.pick(60.0, 2400.0) });
        }
        // a configured peripheral that belongs to ANOTHER DP master (its diagnostics name master 1, it
        // acknowledges our Set_Prm/Chk_Cfg without executing them and refuses Data_Exchange): alone, and next
        // to a peripheral of our own — events stay consistent with the life cycle and with is_live()
        for (n, locked) in [(1usize, vec![0usize]), (2, vec![0]), (2, vec![1])] {
            let mut cfg = base_cfg(vec![PeriphCfg::simple(9, 2, 1), PeriphCfg::simple(11, 0, 2)][..n].to_vec(), Mon::C14, a(n as u8));
            for l in &locked {
                cfg.slave_dev[*l] = 4;
            }
            if n == 2 {
                cfg.dev_budget = 3;
            }
            plans.push(Plan { label: format!("{n}p locked by another master {locked:?}"), cfg, depth: tier.pick(10, 16), max_states: tier.pick(60_000, 1_000_000), secs: tier.pick(60.0, 2400.0) });
        }
    }
    // endurance: 80 000 (thorough 300 000) consecutive requests — with rare losses, power cycles and user calls,
    // and fault-free: more than 2^16 requests and DP cycles
    [(1usize, true), (2, true), (1, false)].par_iter().for_each(|(n, faults)| {
        let cfg = Arc::new(base_cfg(vec![PeriphCfg::simple(9, 2, 1), PeriphCfg::simple(11, 0, 2)][..*n].to_vec(), Mon::C14, vec![Act::Answer]));
        let (steps, cycles) = endurance_run(&cfg, tier.pick(80_000, 300_000), *faults);
        ctx().note(format!("endurance run with {n} peripheral(s), {}: {steps} requests, {cycles} DP cycles", if *faults { "rare losses / power cycles / user calls" } else { "fault-free" }));
        if cycles > 33_000 {
            ctx().witness("c14_endurance_run");
        }
    });
    let t = explore(plans, tier.pick(400.0, 14400.0), &|_w| {});
    finish_mc(
        t,
        "BFS over (real DpMaster with 0..4 peripherals in a fixed 4-slot array or a growing Vec, reference slaves, cycle/turn monitor and per-peripheral life-cycle automaton as history variables); transitions = answered / lost / token lost / power cycle / RR, RS and parameter-fault replies / long token absence / user diagnostics requests; events taken after every callback",
        json!({"peripherals": format!("0..={max_n}"), "storage": ["Vec", "fixed[4]"], "global_control": ["once", "every visit"], "high_prio_only": [false, true]}),
        vec!["c14_cycle_completed", "c14_endurance_run"],
        0,
    )
}

pub fn replay(v: &Value) {
    let r = &v["replay"];
    if r["kind"] == "watchdog" {
        let ms = r["ms"].as_u64().unwrap();
        let mut b = profirust::fdl::ParametersBuilder::new(2, profirust::Baudrate::B19200);
        b.watchdog_timeout(profirust::time::Duration::from_millis(ms));
        println!("{ms} ms -> {:?}", b.build().watchdog_factors);
        return;
    }
    if r["world"] == "w2-dp" {
        // C04 drive mode (b): DpMaster under a real FdlActiveStation
        let answers: Vec<u8> = r["answers"].as_array().unwrap().iter().map(|x| x.as_u64().unwrap() as u8).collect();
        let n = r["peripherals"].as_u64().unwrap() as usize;
        println!("answers: {:?}", answers.iter().map(|a| format!("{:?}", crate::props::w2props::DP_ANSWERS[*a as usize])).collect::<Vec<_>>());
        println!("result: {:?}", crate::props::w2props::dp_under_fdl_images(n, &answers, false, answers.len() + 6).map_err(|p| p.msg));
        return;
    }
    crate::w4::replay(v);
    if let Some(k) = r["then"].as_str() {
        let cfg = Arc::new(cfg_from_json(&r["cfg"]));
        let acts: Vec<Act> = r["path"].as_array().unwrap().iter().map(|a| Act::parse(a.as_str().unwrap())).collect();
        println!("then: {k}");
        println!("continuation: {:?}", c07_continuation(&cfg, &acts));
        println!("silence:      {:?}", c07_silence(&cfg, &acts));
    }
}
