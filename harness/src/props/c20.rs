//! C20 — parameter blocks are packed bit-exactly from the GSD definitions (world W6, PrmBuilder).

use crate::engine::*;
use gsd_parser::{PrmBuilder, PrmValueConstraint, UserPrmData, UserPrmDataDefinition, UserPrmDataType as T};
use rayon::prelude::*;
use serde_json::{json, Value};
use std::collections::{BTreeMap, HashSet};
use std::sync::atomic::{AtomicU64, Ordering};
use std::sync::Arc;

pub const TYPES: [T; 12] = [T::Unsigned8, T::Unsigned16, T::Unsigned32, T::Signed8, T::Signed16, T::Signed32, T::Bit(0), T::Bit(7), T::BitArea(0, 0), T::BitArea(1, 2), T::BitArea(4, 7), T::BitArea(0, 7)];

pub fn type_name(t: T) -> String {
    format!("{:?}", t)
}

pub fn type_range(t: T) -> (i64, i64) {
    match t {
        T::Unsigned8 => (0, 255),
        T::Unsigned16 => (0, 65535),
        T::Unsigned32 => (0, u32::MAX as i64),
        T::Signed8 => (-128, 127),
        T::Signed16 => (-32768, 32767),
        T::Signed32 => (i32::MIN as i64, i32::MAX as i64),
        T::Bit(_) => (0, 1),
        T::BitArea(f, l) => (0, (1i64 << (l - f + 1)) - 1),
    }
}

pub fn type_size(t: T) -> usize {
    match t {
        T::Unsigned8 | T::Signed8 | T::Bit(_) | T::BitArea(_, _) => 1,
        T::Unsigned16 | T::Signed16 => 2,
        T::Unsigned32 | T::Signed32 => 4,
    }
}

/// Reference packer: (mask, bits) per byte of the field, big-endian two's complement.
pub fn ref_field(t: T, value: i64) -> Vec<(u8, u8)> {
    match t {
        T::Bit(b) => vec![(1u8 << b, ((value as u8) & 1) << b)],
        T::BitArea(f, l) => {
            let width = l - f + 1;
            let mask = (((1u16 << width) - 1) as u8) << f;
            vec![(mask, ((value as u8) << f) & mask)]
        }
        _ => {
            let n = type_size(t);
            let be = (value as u64).to_be_bytes();
            be[8 - n..].iter().map(|b| (0xFFu8, *b)).collect()
        }
    }
}

pub fn ref_write(block: &mut Vec<u8>, offset: usize, t: T, value: i64) {
    let f = ref_field(t, value);
    if block.len() < offset + f.len() {
        block.resize(offset + f.len(), 0);
    }
    for (i, (mask, bits)) in f.iter().enumerate() {
        block[offset + i] = (block[offset + i] & !mask) | bits;
    }
}

#[derive(Clone, Debug)]
pub struct FieldSpec {
    pub name: String,
    pub t: T,
    pub offset: usize,
    pub default: i64,
    pub constraint: PrmValueConstraint,
    pub texts: Option<Vec<(String, i64)>>,
}

#[derive(Clone, Debug)]
pub struct Layout {
    pub fields: Vec<FieldSpec>,
    pub consts: Vec<(usize, Vec<u8>)>,
}

impl Layout {
    pub fn build(&self) -> UserPrmData {
        UserPrmData {
            length: 0,
            data_const: self.consts.clone(),
            data_ref: self
                .fields
                .iter()
                .map(|f| {
                    (
                        f.offset,
                        Arc::new(UserPrmDataDefinition {
                            name: f.name.clone(),
                            data_type: f.t,
                            default_value: f.default,
                            constraint: f.constraint.clone(),
                            text_ref: f.texts.as_ref().map(|t| Arc::new(t.iter().cloned().collect::<BTreeMap<String, i64>>())),
                            changeable: true,
                            visible: true,
                        }),
                    )
                })
                .collect(),
        }
    }
    pub fn ref_initial(&self) -> Vec<u8> {
        let mut b: Vec<u8> = vec![];
        for (off, c) in &self.consts {
            if b.len() < off + c.len() {
                b.resize(off + c.len(), 0);
            }
            b[*off..off + c.len()].copy_from_slice(c);
        }
        for f in &self.fields {
            ref_write(&mut b, f.offset, f.t, f.default);
        }
        b
    }
    pub fn to_json(&self) -> Value {
        json!({"fields": self.fields.iter().map(|f| json!({"name": f.name, "type": type_name(f.t), "offset": f.offset, "default": f.default, "constraint": format!("{:?}", f.constraint), "texts": f.texts})).collect::<Vec<_>>(), "consts": self.consts.iter().map(|(o, c)| json!([o, hex(c)])).collect::<Vec<_>>()})
    }
}

#[derive(Clone, Debug, PartialEq)]
pub enum Op {
    Set(String, i64),
    SetText(String, String),
}

pub fn ops_for(l: &Layout) -> Vec<Op> {
    let mut v = vec![];
    for f in &l.fields {
        let (lo, hi) = type_range(f.t);
        let mut vals = vec![lo - 1, lo, -1, 0, 1, hi, hi + 1];
        match &f.constraint {
            PrmValueConstraint::MinMax(a, b) => vals.extend_from_slice(&[a - 1, *a, *b, b + 1]),
            PrmValueConstraint::Enum(e) => {
                vals.extend(e.iter().copied());
                vals.push(e.iter().max().unwrap() + 1);
            }
            _ => {}
        }
        if type_size(f.t) > 1 {
            vals.push(0x0102);
            vals.push(-2);
        }
        vals.sort();
        vals.dedup();
        for x in vals {
            v.push(Op::Set(f.name.clone(), x));
        }
        if let Some(t) = &f.texts {
            for (name, _) in t {
                v.push(Op::SetText(f.name.clone(), name.clone()));
            }
        }
        v.push(Op::SetText(f.name.clone(), "no such text".into()));
    }
    v.push(Op::Set("no such parameter".into(), 0));
    v.push(Op::SetText("no such parameter".into(), "x".into()));
    v
}

/// Reference verdict for one operation on a block: Some(new block) if it must succeed, None if it must fail.
/// The reference notion of "value allowed by the constraint" (independent of the library's `is_valid`).
pub fn ref_valid(c: &PrmValueConstraint, v: i64) -> bool {
    match c {
        PrmValueConstraint::MinMax(a, b) => *a <= v && v <= *b,
        PrmValueConstraint::Enum(e) => e.iter().any(|x| *x == v),
        PrmValueConstraint::Unconstrained => true,
    }
}

pub fn ref_apply(l: &Layout, block: &[u8], op: &Op) -> Option<Vec<u8>> {
    let (name, value) = match op {
        Op::Set(n, v) => (n, *v),
        Op::SetText(n, t) => {
            let f = l.fields.iter().find(|f| f.name == *n)?;
            let v = f.texts.as_ref()?.iter().find(|(k, _)| k == t)?.1;
            (n, v)
        }
    };
    let f = l.fields.iter().find(|f| f.name == *name)?;
    if !ref_valid(&f.constraint, value) {
        return None;
    }
    let (lo, hi) = type_range(f.t);
    if value < lo || value > hi {
        return None;
    }
    let mut b = block.to_vec();
    ref_write(&mut b, f.offset, f.t, value);
    Some(b)
}

/// Explore all op sequences up to `depth` (BFS on block contents). Returns (states, transitions).
pub fn check_layout(l: &Layout, depth: usize) -> (u64, u64) {
    let desc = l.build();
    let report = |sig: &str, detail: String, seq: &[Op]| {
        ctx().violation(
            format!("c20.{sig}"),
            format!("{detail} [layout {} ops {:?}]", l.to_json(), seq),
            json!({"world": "w6-prm", "layout": l.to_json(), "ops": seq.iter().map(|o| format!("{:?}", o)).collect::<Vec<_>>()}),
            (l.fields.len() * 10 + l.consts.len() * 3 + seq.len()) as u64,
        );
    };
    let defaults_ok = l.fields.iter().all(|f| {
        let (lo, hi) = type_range(f.t);
        f.default >= lo && f.default <= hi
    });
    let b0 = match catch(|| PrmBuilder::new(&desc).map(|b| b.as_bytes().to_vec())) {
        Err(p) => {
            report(&format!("new.panic.{}", type_name(l.fields[0].t)), format!("PrmBuilder::new panicked: {}", p.msg), &[]);
            return (1, 0);
        }
        Ok(Err(_)) => {
            if defaults_ok {
                report(&format!("new.rejects_valid_default.{}", sig_types(l)), "PrmBuilder::new returned an error although every default is in range".into(), &[]);
            } else {
                ctx().witness("c20_new_rejects_bad_default");
            }
            return (1, 0);
        }
        Ok(Ok(b)) => b,
    };
    if !defaults_ok {
        report(&format!("new.accepts_out_of_range_default.{}", sig_types(l)), format!("block {}", hex(&b0)), &[]);
        return (1, 0);
    }
    let exp0 = l.ref_initial();
    if b0 != exp0 {
        // classify the known BitArea behaviour precisely: only 1-bits of bytes occupied by a BitArea field
        // were cleared
        let mut only_cleared_by_bitarea = b0.len() == exp0.len();
        if only_cleared_by_bitarea {
            for i in 0..b0.len() {
                let diff = b0[i] ^ exp0[i];
                if diff != 0 {
                    let covered = l.fields.iter().any(|f| matches!(f.t, T::BitArea(..)) && f.offset == i);
                    if !covered || diff & b0[i] != 0 {
                        only_cleared_by_bitarea = false;
                    }
                }
            }
        }
        if only_cleared_by_bitarea {
            report("new.sibling_bits_cleared_by_bitarea", format!("initial block {} but constants overlaid with defaults give {}", hex(&b0), hex(&exp0)), &[]);
            return (1, 0);
        }
        report(&format!("new.block.{}", sig_types(l)), format!("initial block {} but constants overlaid with defaults give {}", hex(&b0), hex(&exp0)), &[]);
        return (1, 0);
    }
    let ops = ops_for(l);
    let mut seen: HashSet<Vec<u8>> = HashSet::new();
    seen.insert(b0.clone());
    let mut frontier: Vec<(Vec<u8>, Vec<Op>)> = vec![(b0, vec![])];
    let mut transitions = 0u64;
    for _d in 0..depth {
        let mut next = vec![];
        for (block, seq) in &frontier {
            for op in &ops {
                transitions += 1;
                // rebuild the builder in this state by replaying the sequence
                let r = catch(|| {
                    let mut b = PrmBuilder::new(&desc).unwrap();
                    for o in seq {
                        let _ = match o {
                            Op::Set(n, v) => b.set_prm(n, *v).map(|_| ()),
                            Op::SetText(n, t) => b.set_prm_from_text(n, t).map(|_| ()),
                        };
                    }
                    let before = b.as_bytes().to_vec();
                    let res = match op {
                        Op::Set(n, v) => b.set_prm(n, *v).map(|_| ()).map_err(|e| format!("{e}")),
                        Op::SetText(n, t) => b.set_prm_from_text(n, t).map(|_| ()).map_err(|e| format!("{e}")),
                    };
                    (before, res, b.as_bytes().to_vec())
                });
                let mut seq2 = seq.clone();
                seq2.push(op.clone());
                let (before, res, after) = match r {
                    Err(p) => {
                        report(&format!("set.panic.{}", op_type(l, op)), format!("panic: {}", p.msg), &seq2);
                        continue;
                    }
                    Ok(x) => x,
                };
                if before != *block {
                    machinery_failure("C20: replay of an op sequence gave a different block");
                }
                let expect = ref_apply(l, block, op);
                match (&res, &expect) {
                    (Ok(()), Some(e)) => {
                        if after != *e {
                            // classify: the field's own bits are right and only bits outside the field were
                            // cleared, or something else
                            let name = match op { Op::Set(n, _) | Op::SetText(n, _) => n };
                            let f = l.fields.iter().find(|f| f.name == *name).unwrap();
                            let masks = ref_field(f.t, 0);
                            let mut only_outside_cleared = after.len() == e.len();
                            if only_outside_cleared {
                                for i in 0..after.len() {
                                    let m = if i >= f.offset && i < f.offset + masks.len() { masks[i - f.offset].0 } else { 0 };
                                    let diff = after[i] ^ e[i];
                                    if diff & m != 0 || (diff & after[i]) != 0 {
                                        only_outside_cleared = false;
                                    }
                                }
                            }
                            let class = if only_outside_cleared { "sibling_bits_cleared" } else { "wrong_bits" };
                            report(&format!("set.{class}.{}", op_type(l, op)), format!("block {} -> {} but the reference says {}", hex(block), hex(&after), hex(e)), &seq2);
                            continue;
                        }
                        ctx().witness("c20_set_ok");
                        if seen.insert(after.clone()) {
                            next.push((after, seq2));
                        }
                    }
                    (Ok(()), None) => {
                        report(&format!("set.accepts_invalid.{}", op_type(l, op)), format!("accepted, block {} -> {}", hex(block), hex(&after)), &seq2);
                    }
                    (Err(e), Some(_)) => {
                        report(&format!("set.rejects_valid.{}", op_type(l, op)), format!("rejected with {e:?}"), &seq2);
                    }
                    (Err(_), None) => {
                        if after != *block {
                            report(&format!("set.failed_but_changed_block.{}", op_type(l, op)), format!("error returned but block {} -> {}", hex(block), hex(&after)), &seq2);
                        } else {
                            ctx().witness("c20_set_rejected");
                        }
                    }
                }
            }
        }
        frontier = next;
        if frontier.is_empty() || ctx().should_stop() {
            break;
        }
    }
    (seen.len() as u64, transitions)
}

fn sig_types(l: &Layout) -> String {
    // the initial block is built from all fields at once: name the bit-field types involved (they
    // share bytes), else all types
    let mut names: Vec<String> = l.fields.iter().map(|f| type_name(f.t).split('(').next().unwrap().to_string()).collect();
    let special: Vec<String> = names.iter().filter(|n| n.starts_with("Bit")).cloned().collect();
    if !special.is_empty() {
        names = special;
    }
    names.sort();
    names.dedup();
    names.join("+")
}

fn op_type(l: &Layout, op: &Op) -> String {
    let n = match op {
        Op::Set(n, _) | Op::SetText(n, _) => n,
    };
    let kind = match op {
        Op::Set(..) => "set",
        Op::SetText(..) => "text",
    };
    match l.fields.iter().find(|f| f.name == *n) {
        Some(f) => {
            let shared = l.fields.iter().filter(|g| g.name != f.name).any(|g| g.offset < f.offset + type_size(f.t) && f.offset < g.offset + type_size(g.t)) || l.consts.iter().any(|(o, c)| *o < f.offset + type_size(f.t) && f.offset < o + c.len());
            format!("{kind}.{}{}", type_name(f.t).split('(').next().unwrap(), if shared { ".shared_byte" } else { "" })
        }
        None => format!("{kind}.unknown_name"),
    }
}

pub fn layouts(tier: Tier) -> Vec<Layout> {
    let mut v = vec![];
    let consts_variants: Vec<Vec<(usize, Vec<u8>)>> = vec![vec![], vec![(0, vec![0x00; 5])], vec![(0, vec![0xFF; 5])], vec![(0, vec![0xA5; 3]), (2, vec![0x3C; 4])]];
    let defaults_for = |t: T| -> Vec<i64> {
        let (lo, hi) = type_range(t);
        let mut d = vec![0, hi, lo];
        if hi > 1 {
            d.push(1);
        }
        d.sort();
        d.dedup();
        d
    };
    // single fields: all defaults incl. out-of-range ones, all constraint kinds, text tables
    for t in TYPES {
        for off in [0usize, 1] {
            for consts in &consts_variants {
                let (lo, hi) = type_range(t);
                let mut defaults = defaults_for(t);
                defaults.push(hi + 1);
                defaults.push(lo - 1);
                for d in defaults {
                    let constraints = vec![PrmValueConstraint::Unconstrained, PrmValueConstraint::MinMax(lo.max(-3), hi.min(5)), PrmValueConstraint::Enum(vec![lo, hi, 1.min(hi)])];
                    for c in constraints {
                        if !ref_valid(&c, d) && d >= lo && d <= hi {
                            continue;
                        }
                        for texts in [None, Some(vec![("low".to_string(), lo), ("high".to_string(), hi), ("bad".to_string(), hi + 1)])] {
                            if tier == Tier::Quick && texts.is_some() && (off == 1 || consts.len() > 1) {
                                continue;
                            }
                            v.push(Layout { fields: vec![FieldSpec { name: "a".into(), t, offset: off, default: d, constraint: c.clone(), texts }], consts: consts.clone() });
                        }
                    }
                }
            }
        }
    }
    // pairs of fields (sharing bytes, overlapping constants)
    for ta in TYPES {
        for tb in TYPES {
            for oa in [0usize, 1] {
                for ob in [0usize, 1] {
                    for consts in &consts_variants {
                        if tier == Tier::Quick && consts.len() > 1 {
                            continue;
                        }
                        for da in defaults_for(ta).into_iter().take(tier.pick(2, 3)) {
                            for db in defaults_for(tb).into_iter().take(tier.pick(2, 3)) {
                                v.push(Layout {
                                    fields: vec![
                                        FieldSpec { name: "a".into(), t: ta, offset: oa, default: da, constraint: PrmValueConstraint::Unconstrained, texts: None },
                                        FieldSpec { name: "b".into(), t: tb, offset: ob, default: db, constraint: PrmValueConstraint::Unconstrained, texts: None },
                                    ],
                                    consts: consts.clone(),
                                });
                            }
                        }
                    }
                }
            }
        }
    }
    v
}

pub fn run(tier: Tier) -> ! {
    let ls = layouts(tier);
    let states = AtomicU64::new(0);
    let trans = AtomicU64::new(0);
    let depth = tier.pick(2, 3);
    ls.par_iter().for_each(|l| {
        if ctx().should_stop() {
            return;
        }
        let lj = l.to_json();
        let (s, t) = guarded(move || lj.clone(), || check_layout(l, if l.fields.len() == 1 { 3 } else { depth }));
        states.fetch_add(s, Ordering::Relaxed);
        trans.fetch_add(t, Ordering::Relaxed);
    });
    let mut ev = Evidence::default();
    ev.level = "model_checking";
    ev.states = states.load(Ordering::Relaxed);
    ev.transitions = trans.load(Ordering::Relaxed);
    ev.traces_validated = ev.transitions;
    ev.evaluations = ev.transitions;
    ev.distinct_nontrivial = ev.states;
    ev.rule = "per layout: BFS over the block contents reachable by set_prm / set_prm_from_text sequences (each state is rebuilt by replaying its sequence on a fresh real PrmBuilder); every transition compared with the reference packer (mask-merge, big-endian two's complement); states = distinct (layout, block) pairs".into();
    ev.samples = ls.iter().step_by(ls.len() / 4 + 1).map(|l| l.to_json()).collect();
    ev.exhaustive = true;
    ev.bounds = json!({"layouts": ls.len(), "types": TYPES.iter().map(|t| type_name(*t)).collect::<Vec<_>>(), "offsets": [0, 1], "sequence_depth": {"single_field": 3, "two_fields": depth}});
    ev.distinct_outcomes = 4;
    ev.required_witnesses = vec!["c20_set_ok", "c20_set_rejected", "c20_new_rejects_bad_default"];
    ev.assumptions.push("invalid type descriptors (Bit(n>7), BitArea(first>last)) are not generated".into());
    finish(ev)
}

pub fn replay(v: &Value) {
    println!("{}", serde_json::to_string_pretty(&v["replay"]).unwrap());
    println!("(re-run ./check C20 quick to re-evaluate; the layout and operation list above are complete)");
}
