//! C16 — the receive path reassembles the byte stream independent of chunking (W1).
//! The generic `ProfibusPhy` helper methods (real code) run over three PHYs: a plain byte queue,
//! the harness BusSim, and the repository's own `SimulatorPhy` (timed byte availability).

use crate::bus::{BusSim, QueuePhy, BIT};
use crate::engine::*;
use crate::props::c10::to_rframe;
use crate::refcodec as rc;
use profirust::phy::{ProfibusPhy, SimulatorPhy};
use profirust::time::Instant;
use rayon::prelude::*;
use serde_json::{json, Value};
use std::sync::atomic::{AtomicU64, Ordering};

#[derive(Clone, Copy, Debug, PartialEq, Eq)]
pub enum Op {
    ReceiveOne,
    ReceiveAll,
    Pending,
    /// the receiver is offered a transmission and declines (what an FDL station does when its
    /// application has nothing to send); only issued while the bus is idle
    DeclinedTransmit,
}

#[derive(Clone, Debug, PartialEq, Eq)]
pub enum OpResult {
    One(Option<rc::RFrame>),
    All(Vec<(rc::RFrame, bool)>, Option<usize>),
    Pending(usize),
    Declined,
}

fn do_op<P: ProfibusPhy>(phy: &mut P, now: Instant, op: Op) -> OpResult {
    match op {
        Op::ReceiveOne => OpResult::One(phy.receive_telegram(now, |t| to_rframe(&t))),
        Op::ReceiveAll => {
            let mut v = vec![];
            let r = phy.receive_all_telegrams(now, |t, last| {
                v.push((to_rframe(&t), last));
                v.len()
            });
            OpResult::All(v, r)
        }
        Op::Pending => OpResult::Pending(phy.poll_pending_received_bytes(now)),
        Op::DeclinedTransmit => {
            let r = phy.transmit_telegram(now, |_tx| None);
            assert!(r.is_none());
            OpResult::Declined
        }
    }
}

pub trait Feed {
    /// make the first `n` bytes of the concatenated stream visible to the receiver
    fn reveal(&mut self, n: usize);
    fn op(&mut self, op: Op) -> OpResult;
}

pub struct QueueFeed {
    all: Vec<u8>,
    shown: usize,
    phy: QueuePhy,
}
impl QueueFeed {
    fn new(frames: &[Vec<u8>]) -> Self {
        QueueFeed { all: frames.concat(), shown: 0, phy: QueuePhy::default() }
    }
}
impl Feed for QueueFeed {
    fn reveal(&mut self, n: usize) {
        self.phy.visible.extend_from_slice(&self.all[self.shown..n]);
        self.shown = n;
    }
    fn op(&mut self, op: Op) -> OpResult {
        do_op(&mut self.phy, Instant::ZERO, op)
    }
}

/// telegram i starts 40 bit times after the end of telegram i-1 (so that SimulatorPhy's own idle-time
/// assertions are satisfied); byte k of the stream is complete at an exactly computed time.
pub struct TimedLayout {
    rate: i64,
    starts_us: Vec<i64>,
    lens: Vec<usize>,
}
impl TimedLayout {
    fn new(rate: i64, frames: &[Vec<u8>]) -> Self {
        let mut starts = vec![];
        let mut t = 1000i64;
        for f in frames {
            starts.push(t);
            let dur_scaled = f.len() as i64 * 11 * BIT + 40 * BIT;
            t += dur_scaled / rate + 2;
        }
        TimedLayout { rate, starts_us: starts, lens: frames.iter().map(|f| f.len()).collect() }
    }
    /// earliest µs instant at which exactly the first n stream bytes are complete, and the number of
    /// telegrams that have started by then
    fn time_for(&self, n: usize) -> (i64, usize) {
        if n == 0 {
            return (self.starts_us[0].min(999), 0);
        }
        let mut acc = 0;
        for (i, l) in self.lens.iter().enumerate() {
            if n <= acc + l {
                let k = (n - acc) as i64;
                let s = k * 11 * BIT;
                let us = self.starts_us[i] + s / self.rate + if s % self.rate != 0 { 1 } else { 0 };
                return (us, i + 1);
            }
            acc += l;
        }
        unreachable!()
    }
}

pub struct BusFeed {
    lay: TimedLayout,
    frames: Vec<Vec<u8>>,
    bus: BusSim,
    started: usize,
    now: i64,
}
impl BusFeed {
    fn new(frames: &[Vec<u8>]) -> Self {
        let rate = 19200;
        BusFeed { lay: TimedLayout::new(rate, frames), frames: frames.to_vec(), bus: BusSim::new(rate as u64, 2), started: 0, now: 0 }
    }
}
impl Feed for BusFeed {
    fn reveal(&mut self, n: usize) {
        let (t, started) = self.lay.time_for(n);
        while self.started < started {
            let i = self.started;
            self.bus.transmit(0, self.lay.starts_us[i], &self.frames[i]);
            self.started += 1;
        }
        self.now = t;
    }
    fn op(&mut self, op: Op) -> OpResult {
        let now = Instant::from_micros(self.now);
        do_op(&mut self.bus.port(1), now, op)
    }
}

pub struct SimFeed {
    lay: TimedLayout,
    frames: Vec<Vec<u8>>,
    tx: SimulatorPhy,
    rx: SimulatorPhy,
    started: usize,
    now: i64,
}
impl SimFeed {
    fn new(frames: &[Vec<u8>]) -> Self {
        let tx = SimulatorPhy::new(profirust::Baudrate::B19200, "tx");
        let rx = tx.duplicate("rx");
        SimFeed { lay: TimedLayout::new(19200, frames), frames: frames.to_vec(), tx, rx, started: 0, now: 0 }
    }
}
impl Feed for SimFeed {
    fn reveal(&mut self, n: usize) {
        let (t, started) = self.lay.time_for(n);
        while self.started < started {
            let i = self.started;
            let st = Instant::from_micros(self.lay.starts_us[i]);
            self.tx.set_bus_time(st);
            let data = self.frames[i].clone();
            self.tx.transmit_data(st, |b| {
                b[..data.len()].copy_from_slice(&data);
                (data.len(), ())
            });
            self.started += 1;
        }
        self.now = t;
        self.tx.set_bus_time(Instant::from_micros(t));
    }
    fn op(&mut self, op: Op) -> OpResult {
        do_op(&mut self.rx, Instant::from_micros(self.now), op)
    }
}

/// Reference model of the receive helpers over the visible-but-unconsumed byte buffer.
#[derive(Default, Clone)]
struct Model {
    v: Vec<u8>,
}
impl Model {
    fn op(&mut self, op: Op) -> OpResult {
        match op {
            Op::Pending => OpResult::Pending(self.v.len()),
            Op::DeclinedTransmit => OpResult::Declined,
            Op::ReceiveOne => match rc::decode(&self.v) {
                rc::RDec::Frame(f, n) => {
                    self.v.drain(..n);
                    OpResult::One(Some(f))
                }
                rc::RDec::NeedMore => OpResult::One(None),
                rc::RDec::Invalid(_) => {
                    self.v.clear();
                    OpResult::One(None)
                }
            },
            Op::ReceiveAll => {
                let mut out = vec![];
                loop {
                    match rc::decode(&self.v) {
                        rc::RDec::Frame(f, n) => {
                            self.v.drain(..n);
                            out.push((f, self.v.is_empty()));
                            if self.v.is_empty() {
                                break;
                            }
                        }
                        rc::RDec::NeedMore => break,
                        rc::RDec::Invalid(_) => {
                            self.v.clear();
                            break;
                        }
                    }
                }
                // return value: result of the callback for the last telegram handed over in this call,
                // unless the call ended on incomplete/undecodable data
                let r = if out.last().map(|(_, l)| *l).unwrap_or(false) { Some(out.len()) } else { None };
                OpResult::All(out, r)
            }
        }
    }
}

#[derive(Clone, Debug)]
pub struct Case {
    pub phy: u8,          // 0 queue, 1 bussim, 2 simulator
    pub frames: Vec<usize>, // indices into the telegram alphabet; 100+ = garbage chunk id
    pub cuts: Vec<usize>,
    pub policy: u8, // 0: receive_telegram once per chunk, drain at the end; 1: receive_telegram until None per chunk; 2: receive_all per chunk; 3: pending + receive_all; 4: receive_telegram + declined transmit at telegram boundaries; 5: declined transmit at telegram boundaries + receive_all
}

pub fn alphabet() -> Vec<(String, Vec<u8>)> {
    let mk = |len: usize| rc::encode(&rc::RFrame::Data { da: 3, sa: 7, dsap: None, ssap: None, fc: 0x08, du: (0..len).map(|i| [0x68u8, 0x10, 0xDC, 0xE5, 0x16, 0xA2][i % 6]).collect() });
    vec![
        ("token".into(), rc::encode(&rc::token(3, 7))),
        ("sc".into(), vec![rc::SC]),
        ("sd1".into(), rc::encode(&rc::status_req(3, 7))),
        ("sd3".into(), mk(8)),
        ("sd2_1".into(), mk(1)),
        ("sd2_9".into(), mk(9)),
        ("sd2_100".into(), mk(100)),
        ("sd2_246".into(), mk(246)),
    ]
}

pub fn garbage(id: usize) -> Vec<u8> {
    match id {
        0 => vec![0x00],
        1 => vec![0x11, 0x22, 0x33],
        2 => vec![0x68, 0x05, 0x06, 0x68, 0x00, 0x00], // LE != LEr
        _ => vec![0x10, 0x03, 0x07, 0x49, 0x00, 0x16],  // SD1 with wrong checksum
    }
}

/// Execute one chunked delivery; Err = violated clause.
pub fn run_case(c: &Case) -> Result<u64, (String, String)> {
    let alpha = alphabet();
    let frames: Vec<Vec<u8>> = c.frames.iter().map(|i| if *i >= 100 { garbage(*i - 100) } else { alpha[*i].1.clone() }).collect();
    let total: usize = frames.iter().map(|f| f.len()).sum();
    let mut bounds: Vec<usize> = c.cuts.clone();
    bounds.push(total);
    let frame_ends: Vec<usize> = frames.iter().scan(0usize, |acc, f| { *acc += f.len(); Some(*acc) }).collect();
    let mut feed: Box<dyn FeedDyn> = match c.phy {
        0 => Box::new(QueueFeed::new(&frames)),
        1 => Box::new(BusFeed::new(&frames)),
        _ => Box::new(SimFeed::new(&frames)),
    };
    let mut model = Model::default();
    let all: Vec<u8> = frames.concat();
    let mut shown = 0;
    let mut got: Vec<rc::RFrame> = vec![];
    let mut ops = 0u64;
    let mut do_both = |feed: &mut Box<dyn FeedDyn>, model: &mut Model, op: Op, got: &mut Vec<rc::RFrame>| -> Result<OpResult, (String, String)> {
        let exp = model.op(op);
        let r = catch(|| feed.op_dyn(op)).map_err(|p| ("panic".to_string(), format!("{}:{} {}", p.file, p.line, p.msg)))?;
        if r != exp {
            let clause = match (&r, &exp) {
                (OpResult::All(a, _), OpResult::All(b, _)) if a.iter().map(|x| &x.0).eq(b.iter().map(|x| &x.0)) && a != b => "is_last_flag",
                (OpResult::All(a, ra), OpResult::All(b, rb)) if a == b && ra != rb => "return_value",
                (OpResult::Pending(_), _) => "pending_count",
                _ => "telegrams_delivered",
            };
            return Err((clause.into(), format!("{op:?}: got {:?}, reference model says {:?}", brief(&r), brief(&exp))));
        }
        match &r {
            OpResult::One(Some(f)) => got.push(f.clone()),
            OpResult::All(v, _) => got.extend(v.iter().map(|x| x.0.clone())),
            _ => {}
        }
        Ok(r)
    };
    for b in bounds.iter() {
        feed.reveal_dyn(*b);
        model.v.extend_from_slice(&all[shown..*b]);
        shown = *b;
        match c.policy {
            0 => {
                do_both(&mut feed, &mut model, Op::ReceiveOne, &mut got)?;
                ops += 1;
            }
            1 => loop {
                ops += 1;
                if let OpResult::One(None) = do_both(&mut feed, &mut model, Op::ReceiveOne, &mut got)? {
                    break;
                }
            },
            2 => {
                do_both(&mut feed, &mut model, Op::ReceiveAll, &mut got)?;
                ops += 1;
            }
            3 => {
                do_both(&mut feed, &mut model, Op::Pending, &mut got)?;
                do_both(&mut feed, &mut model, Op::ReceiveAll, &mut got)?;
                do_both(&mut feed, &mut model, Op::Pending, &mut got)?;
                ops += 3;
            }
            // 4 / 5: a declined transmission between the receive calls, whenever the bus is idle (the chunk
            // ends at a telegram boundary): unread bytes must survive it
            4 => {
                do_both(&mut feed, &mut model, Op::ReceiveOne, &mut got)?;
                ops += 1;
                if frame_ends.contains(b) {
                    do_both(&mut feed, &mut model, Op::DeclinedTransmit, &mut got)?;
                    do_both(&mut feed, &mut model, Op::Pending, &mut got)?;
                    ops += 2;
                }
            }
            _ => {
                if frame_ends.contains(b) {
                    do_both(&mut feed, &mut model, Op::DeclinedTransmit, &mut got)?;
                    ops += 1;
                }
                do_both(&mut feed, &mut model, Op::ReceiveAll, &mut got)?;
                ops += 1;
            }
        }
    }
    // drain
    loop {
        ops += 1;
        if let OpResult::One(None) = do_both(&mut feed, &mut model, Op::ReceiveOne, &mut got)? {
            break;
        }
    }
    // end-to-end clause, independent of the step-wise model: when only valid telegrams were sent, the
    // callbacks are exactly the telegrams sent, in order, each once.
    if c.frames.iter().all(|i| *i < 100) {
        let sent: Vec<rc::RFrame> = frames.iter().map(|f| match rc::decode(f) { rc::RDec::Frame(fr, _) => fr, _ => unreachable!() }).collect();
        if got != sent {
            return Err(("sequence_not_reproduced".into(), format!("received {} telegrams, sent {}", got.len(), sent.len())));
        }
    }
    Ok(ops)
}

fn brief(r: &OpResult) -> String {
    match r {
        OpResult::One(o) => format!("One({:?})", o.as_ref().map(|f| f.short())),
        OpResult::All(v, r) => format!("All({:?}, ret={:?})", v.iter().map(|(f, l)| (f.short(), *l)).collect::<Vec<_>>(), r),
        OpResult::Pending(n) => format!("Pending({n})"),
        OpResult::Declined => "Declined".into(),
    }
}

// object-safe shim
pub trait FeedDyn {
    fn reveal_dyn(&mut self, n: usize);
    fn op_dyn(&mut self, op: Op) -> OpResult;
}
impl<T: Feed> FeedDyn for T {
    fn reveal_dyn(&mut self, n: usize) {
        self.reveal(n)
    }
    fn op_dyn(&mut self, op: Op) -> OpResult {
        self.op(op)
    }
}

fn cut_sets(lens: &[usize], full_pairs_below: usize, triples_below: usize) -> Vec<Vec<usize>> {
    let total: usize = lens.iter().sum();
    let mut out = vec![vec![]];
    for c in 1..total {
        out.push(vec![c]);
    }
    // interesting positions for pairs
    let mut pos: Vec<usize> = vec![];
    if total <= full_pairs_below {
        pos = (1..total).collect();
    } else {
        let mut acc = 0;
        for l in lens {
            for d in 0..8.min(*l) {
                pos.push(acc + d + 1);
            }
            for d in 0..3.min(*l) {
                pos.push(acc + l - d);
            }
            let mut k = 16;
            while k < *l {
                pos.push(acc + k);
                k += 16;
            }
            acc += l;
        }
        pos.retain(|p| *p >= 1 && *p < total);
        pos.sort();
        pos.dedup();
    }
    for i in 0..pos.len() {
        for j in i + 1..pos.len() {
            out.push(vec![pos[i], pos[j]]);
            if total <= triples_below {
                for k in j + 1..pos.len() {
                    out.push(vec![pos[i], pos[j], pos[k]]);
                }
            }
        }
    }
    out
}

pub fn case_json(c: &Case) -> Value {
    json!({"phy": c.phy, "frames": c.frames, "cuts": c.cuts, "policy": c.policy})
}

pub fn run(tier: Tier) -> ! {
    let c = ctx();
    let alpha = alphabet();
    let n_alpha = 8;
    let max_seq = 3;
    let mut seqs: Vec<Vec<usize>> = vec![];
    for a in 0..n_alpha {
        seqs.push(vec![a]);
        for b in 0..n_alpha {
            seqs.push(vec![a, b]);
            if max_seq >= 3 {
                for d in 0..n_alpha {
                    // three-telegram sequences: at most one long telegram to keep the product finite
                    let longs = [a, b, d].iter().filter(|x| **x >= 6).count();
                    if longs <= 1 {
                        seqs.push(vec![a, b, d]);
                    }
                }
            }
        }
    }
    // garbage scenarios: garbage chunk alone then a telegram; telegram(s), garbage, telegram
    let mut garbage_seqs: Vec<Vec<usize>> = vec![];
    for g in 0..4 {
        for a in 0..6 {
            garbage_seqs.push(vec![100 + g, a]);
            garbage_seqs.push(vec![a, 100 + g, a]);
            garbage_seqs.push(vec![a, (a + 1) % 6, 100 + g, a]);
        }
    }
    let evals = AtomicU64::new(0);
    let ops = AtomicU64::new(0);
    let nontrivial = AtomicU64::new(0);
    let work: Vec<(Vec<usize>, bool)> = seqs.into_iter().map(|s| (s, false)).chain(garbage_seqs.into_iter().map(|s| (s, true))).collect();
    work.par_iter().for_each(|(seq, is_garbage)| {
        if c.should_stop() {
            return;
        }
        let lens: Vec<usize> = seq.iter().map(|i| if *i >= 100 { garbage(*i - 100).len() } else { alpha[*i].1.len() }).collect();
        let cuts = if *is_garbage {
            // "arrives separately": chunk boundaries are the frame boundaries
            let mut acc = 0;
            let mut b = vec![];
            for l in &lens[..lens.len() - 1] {
                acc += l;
                b.push(acc);
            }
            // … and the variant in which the garbage arrives in the same chunk as the telegram(s) before it
            // (only the telegram after the garbage arrives separately)
            let mut out = vec![b.clone()];
            if let Some(gpos) = seq.iter().position(|i| *i >= 100) {
                if gpos > 0 {
                    let glued: Vec<usize> = b.iter().copied().skip(gpos).collect();
                    out.push(glued);
                }
            }
            out
        } else {
            cut_sets(&lens, tier.pick(64, 160), tier.pick(12, 36))
        };
        for cut in cuts {
            for phy in 0..3u8 {
                for policy in 0..6u8 {
                    // the timed PHYs cost more; run them with every cut set but only policies 1..3 for pairs
                    if phy > 0 && cut.len() == 2 && policy == 0 {
                        continue;
                    }
                    let case = Case { phy, frames: seq.clone(), cuts: cut.clone(), policy };
                    evals.fetch_add(1, Ordering::Relaxed);
                    if !cut.is_empty() {
                        nontrivial.fetch_add(1, Ordering::Relaxed);
                    }
                    let cj = case_json(&case);
                    let r = guarded(move || cj.clone(), || run_case(&case));
                    match r {
                        Ok(n) => {
                            ops.fetch_add(n, Ordering::Relaxed);
                        }
                        Err((clause, detail)) => {
                            c.violation(
                                format!("c16.{}.{}", ["queue", "bussim", "simulator"][phy as usize], clause),
                                format!("{detail}; case={case:?}"),
                                case_json(&case),
                                (lens.iter().sum::<usize>() + cut.len() * 1000) as u64,
                            );
                        }
                    }
                }
            }
        }
    });
    c.witness_n("helper_calls", ops.load(Ordering::Relaxed));
    let mut ev = Evidence::default();
    ev.level = "model_checking";
    ev.states = evals.load(Ordering::Relaxed);
    ev.transitions = ops.load(Ordering::Relaxed);
    ev.evaluations = evals.load(Ordering::Relaxed);
    ev.distinct_nontrivial = nontrivial.load(Ordering::Relaxed);
    ev.traces_validated = ev.evaluations;
    ev.rule = "every (telegram sequence, set of <=3 cut positions, PHY, call policy) tuple once; states = chunked deliveries executed on the real receive helpers, transitions = helper calls compared step by step with the reference buffer model; non-trivial = at least one cut".into();
    ev.samples = vec![case_json(&Case { phy: 2, frames: vec![0, 5], cuts: vec![2, 7], policy: 2 }), case_json(&Case { phy: 0, frames: vec![101, 3], cuts: vec![3], policy: 1 })];
    ev.exhaustive = true;
    ev.bounds = json!({"alphabet": alpha.iter().take(n_alpha).map(|a| a.0.clone()).collect::<Vec<_>>(), "max_sequence_len": max_seq, "max_cuts": 3, "all_cut_pairs_when_total_len_below": tier.pick(64, 160), "all_cut_triples_when_total_len_below": tier.pick(12, 36), "phys": ["queue", "BusSim", "SimulatorPhy"], "policies": 4});
    ev.distinct_outcomes = 2;
    ev.required_witnesses = vec!["helper_calls"];
    ev.assumptions.push("cut pairs for long streams are restricted to header/tail/stride-16 positions (complete for single cuts)".into());
    ev.extra.insert("explanation".into(), json!("traces_validated_against_impl = every delivery is an execution of the implementation compared against the reference model at every call"));
    finish(ev)
}

pub fn replay(v: &Value) {
    let r = &v["replay"];
    let case = Case {
        phy: r["phy"].as_u64().unwrap() as u8,
        frames: r["frames"].as_array().unwrap().iter().map(|x| x.as_u64().unwrap() as usize).collect(),
        cuts: r["cuts"].as_array().unwrap().iter().map(|x| x.as_u64().unwrap() as usize).collect(),
        policy: r["policy"].as_u64().unwrap() as u8,
    };
    println!("{case:?}\nresult: {:?}", run_case(&case));
}
