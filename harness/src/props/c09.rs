//! C09 — telegram encoding and decoding are mutually inverse (world W1).

use crate::engine::*;
use crate::refcodec as rc;
use profirust::fdl::{
    DataTelegramHeader, FrameCountBit, FunctionCode, RequestType, ResponseState, ResponseStatus, Telegram, TelegramTx,
};
use rayon::prelude::*;
use serde_json::{json, Value};
use std::sync::atomic::{AtomicU64, Ordering};

pub fn all_function_codes() -> Vec<(FunctionCode, u8)> {
    let mut v = vec![];
    let reqs = [
        (RequestType::ClockValue, 0x80u8),
        (RequestType::TimeEvent, 0),
        (RequestType::SdaLow, 3),
        (RequestType::SdnLow, 4),
        (RequestType::SdaHigh, 5),
        (RequestType::SdnHigh, 6),
        (RequestType::MulticastSrd, 7),
        (RequestType::FdlStatus, 9),
        (RequestType::SrdLow, 12),
        (RequestType::SrdHigh, 13),
        (RequestType::Ident, 14),
        (RequestType::LsapStatus, 15),
    ];
    // (fcb enum, FCV bit, FCB bit)
    let fcbs = [
        (FrameCountBit::Inactive, 0u8, 0u8),
        (FrameCountBit::First, 0, 1),
        (FrameCountBit::Low, 1, 0),
        (FrameCountBit::High, 1, 1),
    ];
    for (req, code) in reqs {
        for (fcb, fcv_bit, fcb_bit) in fcbs {
            v.push((FunctionCode::Request { fcb, req }, 0x40 | code | (fcv_bit << 4) | (fcb_bit << 5)));
        }
    }
    let states = [
        (ResponseState::Slave, 0u8),
        (ResponseState::MasterNotReady, 1),
        (ResponseState::MasterWithoutToken, 2),
        (ResponseState::MasterInRing, 3),
    ];
    let statuses = [
        (ResponseStatus::Ok, 0u8),
        (ResponseStatus::UserError, 1),
        (ResponseStatus::NoResources, 2),
        (ResponseStatus::SapNotEnabled, 3),
        (ResponseStatus::DataLow, 8),
        (ResponseStatus::NoDataReady, 9),
        (ResponseStatus::DataHigh, 10),
        (ResponseStatus::NotReceivedDataLow, 12),
        (ResponseStatus::NotReceivedDataHigh, 13),
    ];
    for (st, sb) in states {
        for (status, b) in statuses {
            v.push((FunctionCode::Response { state: st, status }, (sb << 4) | b));
        }
    }
    v
}

pub fn pattern(kind: usize, len: usize) -> Vec<u8> {
    const DELIMS: [u8; 6] = [0x10, 0x68, 0xA2, 0xDC, 0xE5, 0x16];
    (0..len)
        .map(|i| match kind {
            0 => 0x00,
            1 => 0xFF,
            2 => (i as u8).wrapping_mul(7).wrapping_add(1),
            _ => DELIMS[i % 6],
        })
        .collect()
}

#[derive(Clone, Debug)]
pub struct DataCase {
    pub da: u8,
    pub sa: u8,
    pub dsap: Option<u8>,
    pub ssap: Option<u8>,
    pub fc_idx: usize,
    pub len: usize,
    pub pat: usize,
}

impl DataCase {
    pub fn to_json(&self) -> Value {
        json!({"kind":"data","da":self.da,"sa":self.sa,"dsap":self.dsap,"ssap":self.ssap,"fc_idx":self.fc_idx,"len":self.len,"pat":self.pat})
    }
    pub fn from_json(v: &Value) -> Self {
        let o = |k: &str| v[k].as_u64().map(|x| x as u8);
        DataCase {
            da: o("da").unwrap(),
            sa: o("sa").unwrap(),
            dsap: o("dsap"),
            ssap: o("ssap"),
            fc_idx: v["fc_idx"].as_u64().unwrap() as usize,
            len: v["len"].as_u64().unwrap() as usize,
            pat: v["pat"].as_u64().unwrap() as usize,
        }
    }
}

/// Returns Err(clause, detail) when a clause of the property is violated.
pub fn check_data_case(c: &DataCase, fcs: &[(FunctionCode, u8)]) -> Result<(), (String, String)> {
    let (fc, fc_byte) = fcs[c.fc_idx];
    let du = pattern(c.pat, c.len);
    let header = DataTelegramHeader { da: c.da, sa: c.sa, dsap: c.dsap, ssap: c.ssap, fc };
    let expect = rc::encode(&rc::RFrame::Data { da: c.da, sa: c.sa, dsap: c.dsap, ssap: c.ssap, fc: fc_byte, du: du.clone() });
    let mut buf = [0xAAu8; 300];
    let res = catch(|| {
        let tx = TelegramTx::new(&mut buf);
        tx.send_data_telegram(header.clone(), c.len, |b| b.copy_from_slice(&du))
    });
    let res = match res {
        Ok(r) => r,
        Err(p) => return Err(("encode.panic".into(), format!("{}:{} {}", p.file, p.line, p.msg))),
    };
    let n = res.bytes_sent();
    if n != expect.len() {
        return Err(("encode.bytes_sent".into(), format!("bytes_sent {} but frame format needs {}", n, expect.len())));
    }
    if buf[..n] != expect[..] {
        return Err(("encode.bytes".into(), format!("wire bytes {} != reference {}", hex(&buf[..n.min(16)]), hex(&expect[..n.min(16)]))));
    }
    if buf[n..].iter().any(|b| *b != 0xAA) {
        return Err(("encode.overrun".into(), "bytes written beyond the reported length".into()));
    }
    if header.telegram_len(c.len) != n {
        return Err(("encode.telegram_len".into(), format!("telegram_len {} != {}", header.telegram_len(c.len), n)));
    }
    // decode with trailing bytes behind the frame: must consume exactly n
    for extra in [0usize, 3] {
        let input = &buf[..n + extra];
        let d = match catch(|| Telegram::deserialize(input).map(|r| r.map(|(t, l)| (format!("{:?}", t), l, t_matches(&t, &header, &du), t.telegram_len())))) {
            Ok(d) => d,
            Err(p) => return Err(("decode.panic".into(), format!("{}:{} {}", p.file, p.line, p.msg))),
        };
        match d {
            Some(Ok((dbg, l, same, tl))) => {
                if l != n {
                    return Err(("decode.consumed".into(), format!("consumed {} of a {}-byte frame", l, n)));
                }
                if !same {
                    return Err(("decode.not_identical".into(), format!("decoded {} from header {:?} du[{}]", dbg, header, du.len())));
                }
                if tl != n {
                    return Err(("decode.telegram_len".into(), format!("telegram_len() {} != {}", tl, n)));
                }
            }
            Some(Err(())) => return Err(("decode.rejected".into(), "own encoding rejected".into())),
            None => return Err(("decode.needs_more".into(), "own complete encoding reported incomplete".into())),
        }
    }
    Ok(())
}

fn t_matches(t: &Telegram, h: &DataTelegramHeader, du: &[u8]) -> bool {
    match t {
        Telegram::Data(d) => d.h == *h && d.pdu == du,
        _ => false,
    }
}

pub fn run(tier: Tier) -> ! {
    let c = ctx();
    let fcs = all_function_codes();
    assert_eq!(fcs.len(), 84);
    let addrs: Vec<u8> = match tier {
        Tier::Quick => vec![0, 1, 2, 62, 125, 126, 127],
        Tier::Thorough => (0..=127).collect(),
    };
    let saps: [Option<u8>; 4] = [None, Some(0), Some(62), Some(255)];
    let evals = AtomicU64::new(0);
    let nontrivial = AtomicU64::new(0);
    let sd_kinds = [AtomicU64::new(0), AtomicU64::new(0), AtomicU64::new(0)];

    // (1) data telegrams
    let pairs: Vec<(u8, u8)> = addrs.iter().flat_map(|a| addrs.iter().map(move |b| (*a, *b))).collect();
    pairs.par_iter().for_each(|(da, sa)| {
        if c.should_stop() {
            return;
        }
        for dsap in saps {
            for ssap in saps {
                let nsap = dsap.is_some() as usize + ssap.is_some() as usize;
                let max = 246 - nsap;
                let lens = [0, 1, 2, 7, 8, 9, 10, 100, max - 1, max];
                for fc_idx in 0..fcs.len() {
                    for len in lens {
                        // thorough: all 4 patterns on the quick address set, 2 patterns elsewhere
                        let npat = if tier == Tier::Quick || [0u8, 1, 2, 62, 125, 126, 127].contains(da) { 4 } else { 2 };
                        for pat in 0..npat {
                            if len == 0 && pat > 0 {
                                continue;
                            }
                            let case = DataCase { da: *da, sa: *sa, dsap, ssap, fc_idx, len, pat };
                            evals.fetch_add(1, Ordering::Relaxed);
                            if len > 0 || nsap > 0 {
                                nontrivial.fetch_add(1, Ordering::Relaxed);
                            }
                            let le = 3 + nsap + len;
                            sd_kinds[if le == 3 { 0 } else if le == 11 { 1 } else { 2 }].fetch_add(1, Ordering::Relaxed);
                            if let Err((clause, detail)) = check_data_case(&case, &fcs) {
                                c.violation(format!("c09.{clause}"), format!("{detail} case={case:?}"), case.to_json(), (len + nsap) as u64);
                            }
                        }
                    }
                }
            }
        }
    });
    c.witness_n("sd1_frames", sd_kinds[0].load(Ordering::Relaxed));
    c.witness_n("sd3_frames", sd_kinds[1].load(Ordering::Relaxed));
    c.witness_n("sd2_frames", sd_kinds[2].load(Ordering::Relaxed));

    // (2) tokens for all (da, sa) in 0..=255^2, SC
    let mut tok = 0u64;
    for da in 0..=255u8 {
        for sa in 0..=255u8 {
            tok += 1;
            if let Err((cl, d)) = check_token(da, sa) {
                c.violation(format!("c09.token.{cl}"), d, json!({"kind":"token","da":da,"sa":sa}), 0);
            }
        }
    }
    if let Err((cl, d)) = check_sc() {
        c.violation(format!("c09.sc.{cl}"), d, json!({"kind":"sc"}), 0);
    }
    // (3) function code bytes
    let mut accepted = 0u64;
    for b in 0..=255u8 {
        match catch(|| FunctionCode::from_byte(b)) {
            Err(p) => {
                c.violation("c09.fc.from_byte.panic", format!("byte {b:#x}: {}", p.msg), json!({"kind":"fc_byte","byte":b}), 0);
            }
            Ok(Ok(fc)) => {
                accepted += 1;
                let rb = fc.to_byte();
                if FunctionCode::from_byte(rb) != Ok(fc) {
                    c.violation("c09.fc.reencode_unstable", format!("byte {b:#x} -> {fc:?} -> {rb:#x} -> different"), json!({"kind":"fc_byte","byte":b}), 0);
                }
                // byte-exact equality for bytes in the table
                if rc::all_fc_bytes().contains(&b) && rb != b {
                    c.violation("c09.fc.byte_changed", format!("byte {b:#x} re-encodes as {rb:#x}"), json!({"kind":"fc_byte","byte":b}), 0);
                }
                if !rc::fc_known(b) {
                    c.violation("c09.fc.accepts_undefined", format!("undefined function code byte {b:#x} accepted as {fc:?}"), json!({"kind":"fc_byte","byte":b}), 0);
                }
            }
            Ok(Err(_)) => {
                if rc::all_fc_bytes().contains(&b) {
                    c.violation("c09.fc.rejects_defined", format!("defined function code byte {b:#x} rejected"), json!({"kind":"fc_byte","byte":b}), 0);
                }
            }
        }
    }
    for (i, (fc, byte)) in fcs.iter().enumerate() {
        if fc.to_byte() != *byte {
            c.violation("c09.fc.to_byte", format!("{fc:?} encodes as {:#x}, table says {byte:#x}", fc.to_byte()), json!({"kind":"fc","fc_idx":i}), 0);
        }
        if FunctionCode::from_byte(*byte) != Ok(*fc) {
            c.violation("c09.fc.roundtrip", format!("{fc:?} does not round-trip"), json!({"kind":"fc","fc_idx":i}), 0);
        }
    }
    c.witness_n("fc_bytes_accepted", accepted);

    let e = evals.load(Ordering::Relaxed) + tok + 1 + 256 + 84;
    let mut ev = Evidence::default();
    ev.level = "exploration";
    ev.evaluations = e;
    ev.distinct_nontrivial = nontrivial.load(Ordering::Relaxed) + 84;
    ev.rule = "nested loops over (da, sa, dsap, ssap, function code, payload length, payload pattern) + all 65536 tokens + SC + all 256 function-code bytes + all 84 function codes; every tuple is generated exactly once (distinct by construction); non-trivial = data telegram with a payload or a SAP, or one of the 84 function codes".into();
    ev.samples = vec![
        DataCase { da: 127, sa: 2, dsap: Some(62), ssap: Some(255), fc_idx: 37, len: 8, pat: 3 }.to_json(),
        json!({"kind":"token","da":200,"sa":7}),
        json!({"kind":"fc_byte","byte":0x6d}),
    ];
    ev.exhaustive = true;
    ev.bounds = json!({"addresses": addrs.len(), "sap_values": ["none",0,62,255], "function_codes": 84, "lengths": [0,1,2,7,8,9,10,100,"max-1","max"], "patterns": 4, "tokens": 65536});
    ev.distinct_outcomes = 3;
    ev.required_witnesses = vec!["sd1_frames", "sd2_frames", "sd3_frames", "fc_bytes_accepted"];
    ev.assumptions.push("payload contents are covered by 4 patterns (zeros, ones, counter, delimiter values), not by all byte values".into());
    finish(ev)
}

fn check_token(da: u8, sa: u8) -> Result<(), (String, String)> {
    let mut buf = [0xAAu8; 16];
    let r = catch(|| TelegramTx::new(&mut buf).send_token_telegram(da, sa)).map_err(|p| ("panic".to_string(), p.msg))?;
    let exp = rc::encode(&rc::RFrame::Token { da, sa });
    if r.bytes_sent() != 3 || buf[..3] != exp[..] || buf[3] != 0xAA {
        return Err(("bytes".into(), format!("token {sa}->{da}: {}", hex(&buf[..4]))));
    }
    if r.expects_reply().is_some() {
        return Err(("expects_reply".into(), "token expects a reply".into()));
    }
    match catch(|| Telegram::deserialize(&buf[..5]).map(|r| r.map(|(t, n)| (matches!(&t, Telegram::Token(tt) if tt.da == da && tt.sa == sa), n, t.telegram_len())))) {
        Ok(Some(Ok((true, 3, 3)))) => Ok(()),
        o => Err(("decode".into(), format!("token {sa}->{da} decodes as {o:?}"))),
    }
}

fn check_sc() -> Result<(), (String, String)> {
    let mut buf = [0xAAu8; 8];
    let r = catch(|| TelegramTx::new(&mut buf).send_short_confirmation()).map_err(|p| ("panic".to_string(), p.msg))?;
    if r.bytes_sent() != 1 || buf[0] != rc::SC || buf[1] != 0xAA {
        return Err(("bytes".into(), hex(&buf[..2])));
    }
    match Telegram::deserialize(&buf[..3]) {
        Some(Ok((Telegram::ShortConfirmation(_), 1))) => Ok(()),
        o => Err(("decode".into(), format!("{o:?}"))),
    }
}

pub fn replay(v: &Value) {
    let r = &v["replay"];
    match r["kind"].as_str() {
        Some("data") => {
            let case = DataCase::from_json(r);
            println!("replaying {case:?}");
            println!("result: {:?}", check_data_case(&case, &all_function_codes()));
        }
        Some("token") => println!("{:?}", check_token(r["da"].as_u64().unwrap() as u8, r["sa"].as_u64().unwrap() as u8)),
        Some("fc_byte") => {
            let b = r["byte"].as_u64().unwrap() as u8;
            println!("from_byte({b:#x}) = {:?}", FunctionCode::from_byte(b));
        }
        _ => println!("unknown replay kind"),
    }
}
