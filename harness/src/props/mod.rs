pub mod c09;
pub mod c10;
pub mod c16;
pub mod c17;
