pub mod c09;
pub mod c10;
pub mod c16;
pub mod c17;
pub mod w4props;
pub mod w2props;
pub mod w3props;
