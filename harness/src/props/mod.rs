pub mod c09;
pub mod c10;
