//! Property runners over world W2 (adversarial peer): C05 and C11.

use crate::dprig::PeriphCfg;
use crate::engine::*;
use crate::props::w4props;
use crate::refcodec as rc;
use crate::w2::*;
use crate::w4;
use rayon::prelude::*;
use serde_json::{json, Value};
use std::sync::Arc;

pub fn prefix_for(situation: u8, ts: u8, others: &[u8]) -> Vec<Sym> {
    // others: sorted addresses the environment plays (ring members), may be empty
    match situation {
        // 0: listening (just went online)
        0 => vec![],
        // 1: alone with the token (claimed after the silence time-out, GAP scanned)
        1 => vec![Sym::Wait(WaitLen::TimeoutPlus), Sym::Wait(WaitLen::TimeoutPlus)],
        // 2: in a ring with `others`: three rotations witnessed, GAP poll answered, token received
        _ => {
            let mut v = vec![];
            let ring: Vec<u8> = others.to_vec();
            let n = ring.len();
            for _rot in 0..3 {
                for i in 0..n {
                    v.push(Sym::Tel(rc::token(ring[(i + 1) % n], ring[i]), Gap::G33));
                }
            }
            // predecessor of TS among others (cyclically the largest below TS, else the largest)
            let ps = ring.iter().rev().find(|a| **a < ts).copied().unwrap_or(*ring.last().unwrap());
            // continue the rotation up to ps
            let mut i = 0;
            while ring[i] != ps {
                v.push(Sym::Tel(rc::token(ring[(i + 1) % n], ring[i]), Gap::G33));
                i += 1;
            }
            v.push(Sym::Tel(rc::status_req(ts, ps), Gap::G33));
            // give the station its slot to answer (a conforming requester waits for the reply)
            v.push(Sym::Wait(WaitLen::HalfSlot));
            v.push(Sym::Tel(rc::token(ts, ps), Gap::G33));
            v
        }
    }
}

pub fn c11_alphabet(ts: u8, ps: u8, ns: u8, s1: u8, _s2: u8, full: bool) -> Vec<Sym> {
    let mut v = vec![Sym::Wait(WaitLen::HalfSlot), Sym::Wait(WaitLen::SlotPlus), Sym::Wait(WaitLen::TimeoutPlus)];
    // the most relevant first
    v.push(Sym::Tel(rc::token(ts, ps), Gap::G33));
    v.push(Sym::Tel(rc::token(ts, s1), Gap::G33));
    v.push(Sym::Tel(rc::token(ts, ps), Gap::HalfSlot));
    v.push(Sym::Tel(rc::token(ts, s1), Gap::HalfSlot));
    let (sas, das): (Vec<u8>, Vec<u8>) = if full { (vec![ps, ns, s1, ts, 200], vec![ts, ps, ns, s1, 126]) } else { (vec![ps, ns, s1, ts], vec![ts, ns, s1]) };
    for sa in sas {
        for da in das.iter().copied() {
            let t = Sym::Tel(rc::token(da, sa), Gap::G33);
            if !v.contains(&t) && sa != da {
                v.push(t);
            }
        }
    }
    v.push(Sym::Tel(rc::status_req(ts, ps), Gap::G33));
    v.push(Sym::Tel(rc::status_req(ts, s1), Gap::G33));
    v.push(Sym::Tel(rc::status_resp(ts, ns, 2), Gap::G11));
    v.push(Sym::Tel(rc::status_resp(ts, s1, 2), Gap::G11));
    v.push(Sym::Tel(rc::RFrame::Sc, Gap::G11));
    v.push(Sym::Raw(vec![0x00], Gap::G11));
    if full {
        v.push(Sym::Tel(rc::status_resp(ts, s1, 0), Gap::G11));
        v.push(Sym::Tel(rc::status_resp(ts, ns, 3), Gap::G11));
    }
    v
}

pub fn c05_alphabet(ts: u8, hsa: u8) -> Vec<Sym> {
    // address roles: a = TS+1 (GAP or successor), b = some other address below HSA, stranger, 126, 127, 200
    let a = if ts + 1 < hsa { ts + 1 } else { 0 };
    let b = if ts >= 2 { ts - 1 } else { (ts + 2) % hsa };
    let addrs = [ts, a, b, 100u8.min(hsa.saturating_add(5)).max(hsa.min(120)), 126, 127, 200];
    let mut v = vec![Sym::Wait(WaitLen::HalfSlot), Sym::Wait(WaitLen::SlotPlus), Sym::Wait(WaitLen::TimeoutPlus)];
    for sa in addrs {
        for da in addrs {
            if (sa >= 126 && da >= 126) || (sa == 127) {
                continue;
            }
            v.push(Sym::Tel(rc::token(da, sa), Gap::G33));
        }
    }
    v.push(Sym::Tel(rc::token(ts, b), Gap::HalfSlot));
    for sa in [a, b, 100] {
        v.push(Sym::Tel(rc::status_req(ts, sa), Gap::G33));
    }
    v.push(Sym::Tel(rc::status_req(a, b), Gap::G33));
    for st in 0..4u8 {
        v.push(Sym::Tel(rc::status_resp(ts, a, st), Gap::G11));
    }
    v.push(Sym::Tel(rc::status_resp(ts, b, 2), Gap::G11));
    v.push(Sym::Tel(rc::status_resp(b, a, 2), Gap::G11));
    v.push(Sym::Tel(rc::RFrame::Sc, Gap::G11));
    v.push(Sym::Tel(rc::RFrame::Sc, Gap::HalfSlot));
    // SRD / SDN requests to TS and a data response to TS
    v.push(Sym::Tel(rc::RFrame::Data { da: ts, sa: b, dsap: Some(60), ssap: Some(62), fc: 0x6D, du: vec![] }, Gap::G33));
    v.push(Sym::Tel(rc::RFrame::Data { da: 127, sa: b, dsap: Some(58), ssap: Some(62), fc: 0x46, du: vec![0, 0] }, Gap::G33));
    v.push(Sym::Tel(rc::RFrame::Data { da: ts, sa: a, dsap: Some(62), ssap: Some(60), fc: 0x08, du: vec![0x08, 0x04, 0, 255, 0, 1, 0x40] }, Gap::G11));
    v.push(Sym::Tel(rc::RFrame::Data { da: ts, sa: a, dsap: None, ssap: None, fc: 0x08, du: vec![1, 2] }, Gap::G11));
    // garbage / truncated
    v.push(Sym::Raw(vec![0x00], Gap::G11));
    v.push(Sym::Raw(vec![0xDC, ts, 0x01 ^ 0xFF], Gap::G11));
    v.push(Sym::Raw(vec![0x68, 0x09, 0x09, 0x68, ts, a], Gap::G11));
    v.push(Sym::Raw(vec![0xFF, 0x16, 0x10], Gap::G33));
    v.push(Sym::Collide(rc::token(ts, a)));
    v.push(Sym::Collide(rc::RFrame::Sc));
    v.push(Sym::SetOffline);
    v.push(Sym::SetOnline);
    v
}

fn w2_explore(cfgs: Vec<(String, W2Cfg, usize, f64, u64)>, totals: &mut w4props::Totals) {
    for (label, cfg, depth, secs, max_states) in cfgs {
        if ctx().should_stop() {
            break;
        }
        let cfg = Arc::new(cfg);
        let init = W2World::init(&cfg);
        if init.s.dead {
            totals.per_world.push(json!({"world": label, "states": 0, "note": "prefix ended in a (reported) violation"}));
            continue;
        }
        let st = bfs(vec![init], &BfsOpts { max_depth: depth, max_states, max_secs: secs }, |_, nodes| {
            let acc: u32 = nodes.par_iter().map(|n| n.w.s.accepted_tokens.min(1)).sum();
            ctx().witness_n("states_where_station_used_the_token", acc as u64);
        });
        let c2 = cfg.clone();
        let v = validate_paths(move |_| W2World::init(&c2), &st.sample_paths);
        totals.states += st.states;
        totals.transitions += st.transitions;
        totals.validated += v;
        totals.worlds += 1;
        if st.closed {
            totals.closed_worlds += 1;
        }
        if let Some(c) = &st.capped {
            totals.caps.push(format!("{label}: {c}"));
        }
        totals.per_world.push(json!({"world": label, "states": st.states, "transitions": st.transitions, "depth_completed": st.depth_completed, "closed": st.closed, "per_level": st.per_level}));
        if totals.samples.len() < 6 {
            if let Some((p, _)) = st.sample_paths.last() {
                totals.samples.push(json!({"world": label, "path": p[1..].iter().map(|a| cfg.alphabet[*a as usize].name()).collect::<Vec<_>>()}));
            }
        }
    }
}

pub fn run_c11(tier: Tier) -> ! {
    let mut cfgs = vec![];
    // (ts, hsa, others in ring)
    let stations: Vec<(u8, u8, Vec<u8>)> = vec![(3, 7, vec![1, 5]), (0, 7, vec![2, 5]), (6, 7, vec![1, 4])];
    for (si, (ts, hsa, others)) in stations.iter().enumerate() {
        if tier == Tier::Quick && si > 0 {
            // quick: the other stations only in the ring situation with the fast poll grid
        }
        let ps = others.iter().rev().find(|a| *a < ts).copied().unwrap_or(*others.last().unwrap());
        let ns = others.iter().find(|a| *a > ts).copied().unwrap_or(others[0]);
        let free: Vec<u8> = (0..*hsa).filter(|a| a != ts && !others.contains(a)).collect();
        let (s1, s2) = (free[free.len() - 1], free[0]);
        for situation in [2u8, 3, 0, 1] {
            // situation 3: two-station ring (only ns)
            let (sit, oth): (u8, Vec<u8>) = match situation {
                3 => (2, vec![ns]),
                s => (s, others.clone()),
            };
            for div in [8i64, 4] {
                if tier == Tier::Quick && (si > 0 && (div == 4 || situation != 2)) {
                    continue;
                }
                let (psx, nsx) = if situation == 3 { (ns, ns) } else { (ps, ns) };
                let cfg = W2Cfg {
                    ts: *ts,
                    hsa: *hsa,
                    gap_factor: 1,
                    baud: 1,
                    slot_bits: 100,
                    ttr: Some(300),
                    period_div: div,
                    alphabet: c11_alphabet(*ts, psx, nsx, s1, s2, tier == Tier::Thorough && div == 8),
                    prefix: prefix_for(sit, *ts, &oth),
                    mon: W2Mon::C11,
                    apps: 0,
                };
                let depth = tier.pick(4, 7);
                cfgs.push((format!("TS{ts} sit{situation} P=Tsl/{div}"), cfg, depth, tier.pick(5.0, 300.0), tier.pick(150_000, 4_000_000)));
            }
        }
    }
    let mut t = w4props::Totals::default();
    w2_explore(cfgs, &mut t);
    finish_w2(t, "C11", tier, vec!["c11_initiated_as_holder", "c11_pass_repeated", "c11_successor_removed", "c11_claim"])
}

fn finish_w2(t: w4props::Totals, prop: &str, tier: Tier, witnesses: Vec<&'static str>) -> ! {
    let mut ev = Evidence::default();
    ev.level = "model_checking";
    ev.states = t.states;
    ev.transitions = t.transitions;
    ev.traces_validated = t.validated;
    ev.evaluations = t.transitions;
    ev.distinct_nontrivial = t.states;
    ev.rule = format!("{prop}: BFS over the states of a real FdlActiveStation (cloned through the verif-hooks feature) + BusSim + monitor automaton; one transition = one environment action (deliver telegram x after gap g / wait / API call) during which the station is polled on a fixed grid; states deduplicated on a time-normalised fingerprint");
    ev.samples = t.samples.clone();
    ev.exhaustive = t.caps.is_empty();
    ev.bounds = json!({"tier": tier.name(), "worlds": t.worlds});
    ev.caps_hit = t.caps.clone();
    ev.distinct_outcomes = t.states;
    ev.extra.insert("worlds".into(), json!(t.worlds));
    ev.extra.insert("per_world".into(), json!(t.per_world));
    ev.required_witnesses = witnesses;
    ev.assumptions.push("fingerprint saturation of time ages (DESIGN 3.6)".into());
    finish(ev)
}

pub fn run_c05(tier: Tier) -> ! {
    enable_formatting_logger();
    let mut t = w4props::Totals::default();
    // (i) + (ii): FDL station with the stock applications
    let mut cfgs = vec![];
    let stations: Vec<(u8, u8, u8)> = match tier {
        Tier::Quick => vec![(3, 7, 1), (0, 4, 1), (6, 7, 10)],
        Tier::Thorough => vec![(3, 7, 1), (0, 4, 1), (6, 7, 10), (0, 7, 1), (125, 126, 10), (2, 126, 1), (3, 4, 1)],
    };
    for (i, (ts, hsa, g)) in stations.iter().enumerate() {
        let others: Vec<u8> = {
            let a = if ts + 1 < *hsa { ts + 1 } else { 0 };
            let b = if *ts >= 2 { ts - 1 } else { (ts + 2) % hsa };
            let mut v = vec![a, b];
            v.sort();
            v.dedup();
            v
        };
        for situation in [2u8, 0, 1] {
            for apps in [0u8, 1, 2, 3, 4] {
                if apps > 0 && (i > 0 || situation == 0) {
                    continue;
                }
                if tier == Tier::Quick && i > 0 && situation == 1 {
                    continue;
                }
                let cfg = W2Cfg {
                    ts: *ts,
                    hsa: *hsa,
                    gap_factor: *g,
                    baud: 1,
                    slot_bits: 100,
                    ttr: None,
                    period_div: if i % 2 == 0 { 8 } else { 4 },
                    alphabet: c05_alphabet(*ts, *hsa),
                    prefix: prefix_for(situation, *ts, &others),
                    mon: W2Mon::C05,
                    apps,
                };
                let depth = tier.pick(3, 6);
                cfgs.push((format!("TS{ts} HSA{hsa} G{g} sit{situation} apps{apps}"), cfg, depth, tier.pick(20.0, 300.0), tier.pick(400_000, 5_000_000)));
            }
        }
    }
    w2_explore(cfgs, &mut t);
    // (iii) DP master in direct drive, 0..3 peripherals
    let mut plans = vec![];
    let ps = [PeriphCfg::simple(9, 2, 1), PeriphCfg::simple(11, 0, 2), PeriphCfg::simple(4, 1, 0)];
    for n in 0..=3usize {
        for diag_buf in [true, false] {
            for operate in [true, false] {
                if (!diag_buf || !operate) && n != 1 {
                    continue;
                }
                let mut periphs = ps[..n].to_vec();
                if !diag_buf {
                    for p in periphs.iter_mut() {
                        p.diag_buf = None;
                    }
                }
                let mal: Vec<u8> = if n <= 1 { (0..20).collect() } else { vec![0, 1, 2, 5, 7, 8, 12, 16, 18] };
                let mut acts = w4props::std_acts(n as u8, &mal, true);
                acts.push(w4::Act::ExtDiag);
                acts.push(w4::Act::LongPause);
                if n >= 1 {
                    acts.push(w4::Act::UserWrite(0, 3));
                }
                let mut cfg = w4::W4Cfg { rig: crate::dprig::RigCfg::basic(periphs), slave_dev: vec![0; n], gc_every_visit: n == 2, high_prio: false, acts, mon: w4::Mon::C05, dev_budget: if n >= 3 { 3 } else { 255 } };
                cfg.rig.operate = operate;
                let depth = match n {
                    0 => 3,
                    1 => tier.pick(6, 30),
                    2 => tier.pick(5, 12),
                    _ => tier.pick(5, 10),
                };
                plans.push(w4props::Plan { label: format!("dp {n}p diagbuf={diag_buf} operate={operate}"), cfg, depth, max_states: tier.pick(100_000, 3_000_000), secs: tier.pick(20.0, 300.0) });
            }
        }
    }
    let t4 = w4props::explore(plans, 0.0, &|_| {});
    t.states += t4.states;
    t.transitions += t4.transitions;
    t.validated += t4.validated;
    t.worlds += t4.worlds;
    t.per_world.extend(t4.per_world);
    t.caps.extend(t4.caps);
    t.samples.extend(t4.samples.into_iter().take(2));
    finish_w2(t, "C05", tier, vec!["states_where_station_used_the_token"])
}

pub fn replay(v: &Value) {
    if v["replay"]["world"] == "w4" {
        enable_formatting_logger();
        w4::replay(v);
    } else {
        if v["property"] == "C05" {
            enable_formatting_logger();
        }
        crate::w2::replay(v);
    }
}
