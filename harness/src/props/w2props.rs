//! Property runners over world W2 (adversarial peer): C05 and C11.

use crate::dprig::PeriphCfg;
use crate::engine::*;
use crate::props::w4props;
use crate::refcodec as rc;
use crate::w2::*;
use crate::w4;
use rayon::prelude::*;
use serde_json::{json, Value};
use std::sync::Arc;

pub fn prefix_for(situation: u8, ts: u8, others: &[u8]) -> Vec<Sym> {
    // others: sorted addresses the environment plays (ring members), may be empty
    match situation {
        // 0: listening (just went online)
        0 => vec![],
        // 1: alone with the token (claimed after the silence time-out, GAP scanned)
        1 => vec![Sym::Wait(WaitLen::TimeoutPlus), Sym::Wait(WaitLen::TimeoutPlus)],
        // 4: as 2, then one regular token visit, a single token offer from a stranger (free address, HSA-1 or
        // the highest free one) that is not repeated, and another regular token visit: the station is back
        // in ActiveIdle, the old offer must be forgotten
        4 => {
            let mut v = prefix_for(2, ts, others);
            let ring: Vec<u8> = others.to_vec();
            let ps = ring.iter().rev().find(|a| **a < ts).copied().unwrap_or(*ring.last().unwrap());
            let ns = ring.iter().find(|a| **a > ts).copied().unwrap_or(ring[0]);
            let stranger = (0..=125u8).rev().find(|a| *a != ts && !ring.contains(a) && *a < 7).unwrap_or(100);
            let after_ns = ring.iter().find(|a| **a > ns).copied().unwrap_or(ring[0]);
            let visit_end = |v: &mut Vec<Sym>| {
                // the station uses the token (a GAP poll that stays unanswered) and passes it on; the
                // successor is heard passing it on
                v.push(Sym::Wait(WaitLen::SlotPlus));
                v.push(Sym::Wait(WaitLen::HalfSlot));
                v.push(Sym::Tel(rc::token(if after_ns == ts { ps } else { after_ns }, ns), Gap::G33));
            };
            visit_end(&mut v);
            v.push(Sym::Tel(rc::token(ts, stranger), Gap::G33));
            v.push(Sym::Tel(rc::token(ts, ps), Gap::G33));
            visit_end(&mut v);
            v
        }
        // 2: in a ring with `others`: three rotations witnessed, GAP poll answered, token received
        _ => {
            let mut v = vec![];
            let ring: Vec<u8> = others.to_vec();
            let n = ring.len();
            for _rot in 0..3 {
                for i in 0..n {
                    v.push(Sym::Tel(rc::token(ring[(i + 1) % n], ring[i]), Gap::G33));
                }
            }
            // predecessor of TS among others (cyclically the largest below TS, else the largest)
            let ps = ring.iter().rev().find(|a| **a < ts).copied().unwrap_or(*ring.last().unwrap());
            // continue the rotation up to ps
            let mut i = 0;
            while ring[i] != ps {
                v.push(Sym::Tel(rc::token(ring[(i + 1) % n], ring[i]), Gap::G33));
                i += 1;
            }
            v.push(Sym::Tel(rc::status_req(ts, ps), Gap::G33));
            // give the station its slot to answer (a conforming requester waits for the reply)
            v.push(Sym::Wait(WaitLen::HalfSlot));
            v.push(Sym::Tel(rc::token(ts, ps), Gap::G33));
            v
        }
    }
}

pub fn c11_alphabet(ts: u8, ps: u8, ns: u8, s1: u8, _s2: u8, full: bool) -> Vec<Sym> {
    let mut v = vec![Sym::Wait(WaitLen::HalfSlot), Sym::Wait(WaitLen::SlotPlus), Sym::Wait(WaitLen::TimeoutPlus)];
    // the most relevant first
    v.push(Sym::Tel(rc::token(ts, ps), Gap::G33));
    v.push(Sym::Tel(rc::token(ts, s1), Gap::G33));
    v.push(Sym::Tel(rc::token(ts, ps), Gap::HalfSlot));
    v.push(Sym::Tel(rc::token(ts, s1), Gap::HalfSlot));
    let (sas, das): (Vec<u8>, Vec<u8>) = if full { (vec![ps, ns, s1, ts, 200], vec![ts, ps, ns, s1, 126]) } else { (vec![ps, ns, s1, ts], vec![ts, ns, s1]) };
    for sa in sas {
        for da in das.iter().copied() {
            let t = Sym::Tel(rc::token(da, sa), Gap::G33);
            if !v.contains(&t) && sa != da {
                v.push(t);
            }
        }
    }
    v.push(Sym::Tel(rc::status_req(ts, ps), Gap::G33));
    v.push(Sym::Tel(rc::status_req(ts, s1), Gap::G33));
    v.push(Sym::Tel(rc::status_resp(ts, ns, 2), Gap::G11));
    v.push(Sym::Tel(rc::status_resp(ts, s1, 2), Gap::G11));
    v.push(Sym::Tel(rc::RFrame::Sc, Gap::G11));
    v.push(Sym::Raw(vec![0x00], Gap::G11));
    if full {
        v.push(Sym::Tel(rc::status_resp(ts, s1, 0), Gap::G11));
        v.push(Sym::Tel(rc::status_resp(ts, ns, 3), Gap::G11));
    }
    v
}

pub fn c05_alphabet(ts: u8, hsa: u8) -> Vec<Sym> {
    // address roles: a = TS+1 (GAP or successor), b = some other address below HSA, stranger, 126, 127, 200
    let a = if ts + 1 < hsa { ts + 1 } else { 0 };
    let b = if ts >= 2 { ts - 1 } else { (ts + 2) % hsa };
    let addrs = [ts, a, b, 100u8.min(hsa.saturating_add(5)).max(hsa.min(120)), 126, 127, 200];
    let mut v = vec![Sym::Wait(WaitLen::HalfSlot), Sym::Wait(WaitLen::SlotPlus), Sym::Wait(WaitLen::TimeoutPlus)];
    for sa in addrs {
        for da in addrs {
            if (sa >= 126 && da >= 126) || (sa == 127) {
                continue;
            }
            v.push(Sym::Tel(rc::token(da, sa), Gap::G33));
        }
    }
    v.push(Sym::Tel(rc::token(ts, b), Gap::HalfSlot));
    for sa in [a, b, 100] {
        v.push(Sym::Tel(rc::status_req(ts, sa), Gap::G33));
    }
    v.push(Sym::Tel(rc::status_req(a, b), Gap::G33));
    for st in 0..4u8 {
        v.push(Sym::Tel(rc::status_resp(ts, a, st), Gap::G11));
    }
    v.push(Sym::Tel(rc::status_resp(ts, b, 2), Gap::G11));
    v.push(Sym::Tel(rc::status_resp(b, a, 2), Gap::G11));
    v.push(Sym::Tel(rc::RFrame::Sc, Gap::G11));
    v.push(Sym::Tel(rc::RFrame::Sc, Gap::HalfSlot));
    // SRD / SDN requests to TS and a data response to TS
    v.push(Sym::Tel(rc::RFrame::Data { da: ts, sa: b, dsap: Some(60), ssap: Some(62), fc: 0x6D, du: vec![] }, Gap::G33));
    v.push(Sym::Tel(rc::RFrame::Data { da: 127, sa: b, dsap: Some(58), ssap: Some(62), fc: 0x46, du: vec![0, 0] }, Gap::G33));
    v.push(Sym::Tel(rc::RFrame::Data { da: ts, sa: a, dsap: Some(62), ssap: Some(60), fc: 0x08, du: vec![0x08, 0x04, 0, 255, 0, 1, 0x40] }, Gap::G11));
    v.push(Sym::Tel(rc::RFrame::Data { da: ts, sa: a, dsap: None, ssap: None, fc: 0x08, du: vec![1, 2] }, Gap::G11));
    // garbage / truncated
    v.push(Sym::Raw(vec![0x00], Gap::G11));
    v.push(Sym::Raw(vec![0xDC, ts, 0x01 ^ 0xFF], Gap::G11));
    v.push(Sym::Raw(vec![0x68, 0x09, 0x09, 0x68, ts, a], Gap::G11));
    v.push(Sym::Raw(vec![0xFF, 0x16, 0x10], Gap::G33));
    // an SD2 header that announces more than any telegram may have (LE 255), an SD3 telegram cut short, a lone
    // start delimiter
    v.push(Sym::Raw(vec![0x68, 0xFF, 0xFF, 0x68, ts, a], Gap::G11));
    v.push(Sym::Raw(vec![0xA2, ts, a, 0x08, 1, 2, 3], Gap::G11));
    v.push(Sym::Raw(vec![0x68], Gap::G11));
    v.push(Sym::Collide(rc::token(ts, a)));
    v.push(Sym::Collide(rc::RFrame::Sc));
    v.push(Sym::SetOffline);
    v.push(Sym::SetOnline);
    // one long gap between two polls: a slot time, the station's whole silence time-out
    v.push(Sym::NoPoll(WaitLen::SlotPlus));
    v.push(Sym::NoPoll(WaitLen::TimeoutPlus));
    v
}

/// Coarse poll schedules: the station sees two or three telegrams in ONE poll. All ordered pairs over
/// a set of role-covering telegrams, triples of the 'own source address' telegrams, plus the single
/// telegrams and the waits (so that bursts are also reached from states set up one telegram at a time).
pub fn c05_burst_alphabet(ts: u8, hsa: u8) -> Vec<Sym> {
    let a = if ts + 1 < hsa { ts + 1 } else { 0 };
    let b = if ts >= 2 { ts - 1 } else { (ts + 2) % hsa };
    let frames: Vec<rc::RFrame> = vec![
        rc::token(a, ts),
        rc::token(ts, ts),
        rc::token(ts, b),
        rc::token(a, b),
        rc::token(b, a),
        rc::token(200, a),
        rc::status_req(ts, b),
        rc::status_req(a, ts),
        rc::status_resp(ts, a, 2),
        rc::status_resp(ts, a, 3),
        rc::RFrame::Sc,
        rc::RFrame::Data { da: ts, sa: a, dsap: None, ssap: None, fc: 0x08, du: vec![1, 2] },
    ];
    let mut parts: Vec<Vec<u8>> = frames.iter().map(rc::encode).collect();
    parts.push(vec![0x00]);
    parts.push(vec![0x68, 0x09, 0x09, 0x68, ts, a]);
    let mut v = vec![Sym::Wait(WaitLen::HalfSlot), Sym::Wait(WaitLen::SlotPlus), Sym::Wait(WaitLen::TimeoutPlus)];
    for f in &frames {
        v.push(Sym::Tel(f.clone(), Gap::G33));
    }
    for x in &parts {
        for y in &parts {
            v.push(Sym::Burst(vec![x.clone(), y.clone()]));
        }
    }
    for x in [0usize, 1, 7] {
        for y in [0usize, 1, 7] {
            for z in [0usize, 1, 7, 2, 10] {
                v.push(Sym::Burst(vec![parts[x].clone(), parts[y].clone(), parts[z].clone()]));
            }
        }
    }
    v.push(Sym::SetOffline);
    v.push(Sym::SetOnline);
    v
}

fn w2_explore(cfgs: Vec<(String, W2Cfg, usize, f64, u64)>, totals: &mut w4props::Totals) {
    for (label, cfg, depth, secs, max_states) in cfgs {
        if ctx().should_stop() {
            break;
        }
        let cfg = Arc::new(cfg);
        let init = W2World::init(&cfg);
        if init.s.dead {
            totals.per_world.push(json!({"world": label, "states": 0, "note": "prefix ended in a (reported) violation"}));
            continue;
        }
        let st = bfs(vec![init], &BfsOpts { max_depth: depth, max_states, max_secs: secs }, |_, nodes| {
            let acc: u32 = nodes.par_iter().map(|n| n.w.s.accepted_tokens.min(1)).sum();
            ctx().witness_n("states_where_station_used_the_token", acc as u64);
        });
        let c2 = cfg.clone();
        let v = validate_paths(move |_| W2World::init(&c2), &st.sample_paths);
        totals.states += st.states;
        totals.transitions += st.transitions;
        totals.validated += v;
        totals.worlds += 1;
        if st.closed {
            totals.closed_worlds += 1;
        }
        if let Some(c) = &st.capped {
            totals.caps.push(format!("{label}: {c}"));
        }
        totals.per_world.push(json!({"world": label, "states": st.states, "transitions": st.transitions, "depth_completed": st.depth_completed, "closed": st.closed, "per_level": st.per_level}));
        if totals.samples.len() < 6 {
            if let Some((p, _)) = st.sample_paths.last() {
                totals.samples.push(json!({"world": label, "path": p[1..].iter().map(|a| cfg.alphabet[*a as usize].name()).collect::<Vec<_>>()}));
            }
        }
    }
}

pub fn run_c11(tier: Tier) -> ! {
    let mut cfgs = vec![];
    // (ts, hsa, others in ring)
    // the last two: bit-set word boundary 63/64 and the top of the address space with the wrap-around to 0
    let stations: Vec<(u8, u8, Vec<u8>)> = vec![(3, 7, vec![1, 5]), (0, 7, vec![2, 5]), (6, 7, vec![1, 4]), (64, 126, vec![63, 100]), (125, 126, vec![0, 64])];
    for (si, (ts, hsa, others)) in stations.iter().enumerate() {
        if tier == Tier::Quick && si > 0 {
            // quick: the other stations only in the ring situation with the fast poll grid
        }
        let ps = others.iter().rev().find(|a| *a < ts).copied().unwrap_or(*others.last().unwrap());
        let ns = others.iter().find(|a| *a > ts).copied().unwrap_or(others[0]);
        let free: Vec<u8> = (0..*hsa).filter(|a| a != ts && !others.contains(a)).collect();
        let (s1, s2) = (free[free.len() - 1], free[0]);
        for situation in [2u8, 3, 0, 1, 4] {
            // situation 3: two-station ring (only ns)
            let (sit, oth): (u8, Vec<u8>) = match situation {
                3 => (2, vec![ns]),
                s => (s, others.clone()),
            };
            for div in [8i64, 4] {
                if tier == Tier::Quick && (si > 0 && (div == 4 || situation != 2)) {
                    continue;
                }
                if situation == 4 && div == 4 {
                    continue;
                }
                let (psx, nsx) = if situation == 3 { (ns, ns) } else { (ps, ns) };
                let cfg = W2Cfg {
                    ts: *ts,
                    hsa: *hsa,
                    gap_factor: 1,
                    baud: 1,
                    slot_bits: 100,
                    ttr: Some(300),
                    period_div: div,
                    alphabet: c11_alphabet(*ts, psx, nsx, s1, s2, tier == Tier::Thorough && div == 8),
                    prefix: prefix_for(sit, *ts, &oth),
                    mon: W2Mon::C11,
                    apps: 0,
                };
                let depth = tier.pick(4, 7);
                cfgs.push((format!("TS{ts} sit{situation} P=Tsl/{div}"), cfg, depth, tier.pick(60.0, 3000.0), tier.pick(150_000, 3_000_000)));
            }
        }
    }
    // baud rates: the three-station-ring situation of TS 3 once more at 9600 baud, 1.5 and 12 Mbit/s (minimum
    // slot time of the rate; bit times below a microsecond)
    {
        let base: Vec<_> = cfgs.iter().filter(|(l, c, ..)| c.ts == 3 && l.contains("sit2") && c.period_div == 8).cloned().collect();
        for (label, cfg, depth, secs, cap) in base {
            for baud in [0usize, 3, 4] {
                let mut c = cfg.clone();
                c.baud = baud;
                c.slot_bits = c.slot_bits.max(crate::w2::MIN_SLOT[baud]);
                cfgs.push((format!("{label} baud#{baud}"), c, depth, secs, cap));
            }
        }
    }
    let mut t = w4props::Totals::default();
    w2_explore(cfgs, &mut t);
    // part (2): forged token offers inside running rings of real stations
    let (runs, polls) = crate::props::w3props::c11_forged_offers(tier);
    t.states += runs;
    t.transitions += polls;
    t.validated += runs;
    t.per_world.push(json!({"world": "rings of real stations: a forged token from a non-predecessor to every station, once and twice, after every telegram of a window of HSA+3 rotations", "executions": runs, "polls": polls}));
    finish_w2(t, "C11", tier, vec!["c11_initiated_as_holder", "c11_pass_repeated", "c11_successor_removed", "c11_claim", "c11_ring_forged_offer_run", "c11_ring_second_offer_delivered"])
}

fn finish_w2(t: w4props::Totals, prop: &str, tier: Tier, witnesses: Vec<&'static str>) -> ! {
    let mut ev = Evidence::default();
    ev.level = "model_checking";
    ev.states = t.states;
    ev.transitions = t.transitions;
    ev.traces_validated = t.validated;
    ev.evaluations = t.transitions;
    ev.distinct_nontrivial = t.states;
    ev.rule = format!("{prop}: BFS over the states of a real FdlActiveStation (cloned through the verif-hooks feature) + BusSim + monitor automaton; one transition = one environment action (deliver telegram x after gap g / wait / API call) during which the station is polled on a fixed grid; states deduplicated on a time-normalised fingerprint");
    ev.samples = t.samples.clone();
    ev.exhaustive = t.caps.is_empty();
    ev.bounds = json!({"tier": tier.name(), "worlds": t.worlds});
    ev.caps_hit = t.caps.clone();
    ev.distinct_outcomes = t.states;
    ev.extra.insert("worlds".into(), json!(t.worlds));
    ev.extra.insert("per_world".into(), json!(t.per_world));
    ev.required_witnesses = witnesses;
    ev.assumptions.push("fingerprint saturation of time ages (DESIGN 3.6)".into());
    finish(ev)
}

pub fn run_c05(tier: Tier) -> ! {
    enable_formatting_logger();
    let mut t = w4props::Totals::default();
    // (i) + (ii): FDL station with the stock applications
    let mut cfgs = vec![];
    let stations: Vec<(u8, u8, u8)> = match tier {
        Tier::Quick => vec![(3, 7, 1), (0, 4, 1), (6, 7, 10), (125, 126, 1)],
        Tier::Thorough => vec![(3, 7, 1), (0, 4, 1), (6, 7, 10), (0, 7, 1), (125, 126, 10), (2, 126, 1), (3, 4, 1)],
    };
    for (i, (ts, hsa, g)) in stations.iter().enumerate() {
        let others: Vec<u8> = {
            let a = if ts + 1 < *hsa { ts + 1 } else { 0 };
            let b = if *ts >= 2 { ts - 1 } else { (ts + 2) % hsa };
            let mut v = vec![a, b];
            v.sort();
            v.dedup();
            v
        };
        for situation in [2u8, 0, 1] {
            for apps in [0u8, 1, 2, 3, 4] {
                if apps > 0 && (i > 0 || situation == 0) {
                    continue;
                }
                if tier == Tier::Quick && i > 0 && situation == 1 {
                    continue;
                }
                let cfg = W2Cfg {
                    ts: *ts,
                    hsa: *hsa,
                    gap_factor: *g,
                    baud: 1,
                    slot_bits: 100,
                    ttr: None,
                    period_div: if i % 2 == 0 { 8 } else { 4 },
                    alphabet: c05_alphabet(*ts, *hsa),
                    prefix: prefix_for(situation, *ts, &others),
                    mon: W2Mon::C05,
                    apps,
                };
                let depth = tier.pick(3, 6);
                if tier == Tier::Thorough {
                    // The symbols added in rounds 14-16 (one long gap between two polls, the over-long SD2 header, the
                    // cut SD3 telegram, the lone start delimiter) are explored to the quick tier's depth in both tiers;
                    // the depth-6 exploration runs on the alphabet without them. (A depth-6 run WITH them did not
                    // complete in the time that was left, so it is not claimed.)
                    let mut deep = cfg.clone();
                    deep.alphabet.retain(|sy| !matches!(sy, Sym::NoPoll(_)) && !matches!(sy, Sym::Raw(b, _) if b.len() == 1 && b[0] == 0x68 || b.first() == Some(&0xA2) || (b.len() >= 3 && b[0] == 0x68 && b[1] == 0xFF)));
                    cfgs.push((format!("TS{ts} HSA{hsa} G{g} sit{situation} apps{apps} (alphabet of round 13)"), deep, depth, 3000.0, 2_000_000));
                    cfgs.push((format!("TS{ts} HSA{hsa} G{g} sit{situation} apps{apps}"), cfg, 3, 3000.0, 2_000_000));
                    continue;
                }
                cfgs.push((format!("TS{ts} HSA{hsa} G{g} sit{situation} apps{apps}"), cfg, depth, tier.pick(120.0, 3000.0), tier.pick(400_000, 2_000_000)));
            }
        }
    }
    // (i-b) coarse poll schedules: several telegrams per poll
    let burst_stations: Vec<(u8, u8, u8)> = match tier {
        Tier::Quick => vec![(3, 7, 1)],
        Tier::Thorough => vec![(3, 7, 1), (0, 4, 1), (125, 126, 10)],
    };
    for (ts, hsa, g) in burst_stations {
        let a = if ts + 1 < hsa { ts + 1 } else { 0 };
        let b = if ts >= 2 { ts - 1 } else { (ts + 2) % hsa };
        let mut others = vec![a, b];
        others.sort();
        others.dedup();
        for situation in [0u8, 2, 1] {
            for apps in [0u8, 1] {
                if apps > 0 && situation != 2 {
                    continue;
                }
                let cfg = W2Cfg {
                    ts,
                    hsa,
                    gap_factor: g,
                    baud: 1,
                    slot_bits: 100,
                    ttr: None,
                    period_div: 8,
                    alphabet: c05_burst_alphabet(ts, hsa),
                    prefix: prefix_for(situation, ts, &others),
                    mon: W2Mon::C05,
                    apps,
                };
                cfgs.push((format!("bursts TS{ts} HSA{hsa} G{g} sit{situation} apps{apps}"), cfg, tier.pick(2, 4), tier.pick(120.0, 3000.0), tier.pick(400_000, 2_000_000)));
            }
        }
    }
    // API-call world: the application list changes while the station is offline (the documentation allows
    // exactly that): live list + scanner through poll_multi() <-> live list alone through poll(), with
    // set_offline() at every point of the round robin (found by a seeded change: a scheduling index that
    // survived set_offline())
    for (ts, hsa) in tier.pick(vec![(0u8, 3u8)], vec![(0u8, 3u8), (2, 4)]) {
        for apps in [3u8, 1] {
            let alphabet = vec![Sym::Wait(WaitLen::HalfSlot), Sym::Wait(WaitLen::SlotPlus), Sym::Wait(WaitLen::TimeoutPlus), Sym::SetOffline, Sym::SwitchApps, Sym::SetOnline];
            let cfg = W2Cfg { ts, hsa, gap_factor: 10, baud: 1, slot_bits: 100, ttr: None, period_div: 8, alphabet, prefix: vec![], mon: W2Mon::C05, apps };
            cfgs.push((format!("app list switched while offline TS{ts} HSA{hsa} apps{apps}"), cfg, 9, tier.pick(120.0, 3000.0), tier.pick(400_000, 2_000_000)));
        }
    }
    // other baud rates: the TS-3 worlds (in the ring, without applications and with the live list) once more at
    // 9600 baud, 1.5 and 12 Mbit/s at the minimum slot time of the rate
    {
        let base: Vec<_> = cfgs.iter().filter(|(l, c, ..)| c.ts == 3 && l.contains("sit2") && c.apps <= 1 && !l.contains("bursts")).cloned().collect();
        for (label, cfg, depth, secs, cap) in base {
            for baud in [0usize, 3, 4] {
                let mut c = cfg.clone();
                c.baud = baud;
                c.slot_bits = c.slot_bits.max(crate::w2::MIN_SLOT[baud]);
                // (thorough: one level less deep than the 19.2 kbit/s worlds, half the state cap)
                cfgs.push((format!("{label} baud#{baud}"), c, depth.min(3), secs, cap));
            }
        }
    }
    w2_explore(cfgs, &mut t);
    // (iii) DP master in direct drive, 0..3 peripherals
    let mut plans = vec![];
    let ps = [PeriphCfg::simple(9, 2, 1), PeriphCfg::simple(11, 0, 2), PeriphCfg::simple(4, 1, 0)];
    for n in 0..=3usize {
        for diag_buf in [true, false] {
            for operate in [true, false] {
                if (!diag_buf || !operate) && n != 1 {
                    continue;
                }
                let mut periphs = ps[..n].to_vec();
                if !diag_buf {
                    for p in periphs.iter_mut() {
                        p.diag_buf = None;
                    }
                }
                let mal: Vec<u8> = if n <= 1 { (0..26).collect() } else { vec![0, 1, 2, 5, 7, 8, 12, 16, 18, 20, 23] };
                let mut acts = w4props::std_acts(n as u8, &mal, true);
                acts.push(w4::Act::ExtDiag);
                acts.push(w4::Act::LongPause);
                if n >= 1 {
                    acts.push(w4::Act::UserWrite(0, 3));
                    acts.push(w4::Act::ResetAddr(0));
                }
                if n >= 2 {
                    acts.push(w4::Act::ResetAddr(1));
                    acts.push(w4::Act::EnterOperate);
                }
                let mut cfg = w4::W4Cfg { rig: crate::dprig::RigCfg::basic(periphs), slave_dev: vec![0; n], gc_every_visit: n == 2, high_prio: false, acts, mon: w4::Mon::C05, dev_budget: if n >= 3 { 3 } else { 255 }, late_add: false };
                cfg.rig.operate = operate;
                let depth = match n {
                    0 => 3,
                    1 => tier.pick(6, 30),
                    2 => tier.pick(5, 12),
                    _ => tier.pick(5, 10),
                };
                plans.push(w4props::Plan { label: format!("dp {n}p diagbuf={diag_buf} operate={operate}"), cfg, depth, max_states: tier.pick(100_000, 3_000_000), secs: tier.pick(120.0, 3000.0) });
            }
        }
    }
    {
        let a = |n: u8| {
            let mut acts = w4props::std_acts(n, &[0, 8, 16, 20], true);
            acts.push(w4::Act::LongPause);
            acts
        };
        plans.extend(w4props::param_sweep_plans(w4::Mon::C05, a(1), a(2), tier));
    }
    let t4 = w4props::explore(plans, 0.0, &|_| {});
    t.states += t4.states;
    t.transitions += t4.transitions;
    t.validated += t4.validated;
    t.worlds += t4.worlds;
    t.per_world.extend(t4.per_world);
    t.caps.extend(t4.caps);
    t.samples.extend(t4.samples.into_iter().take(2));
    // (v) the station inside a reactive ring (the environment plays conforming ring members and answers every
    // GAP poll in all ways): long conforming histories — many token visits, complete GAP sweeps — that the
    // adversarial alphabet worlds do not reach within their depth; includes ring members ABOVE the HSA
    {
        use crate::w2r::{RCfg, RMon};
        let mut rcfgs = vec![];
        let cases: Vec<(u8, u8, Vec<u8>)> = match tier {
            Tier::Quick => vec![(2, 4, vec![20]), (0, 3, vec![]), (2, 3, vec![0, 1]), (1, 4, vec![3, 100])],
            Tier::Thorough => vec![(2, 4, vec![20]), (0, 3, vec![]), (2, 3, vec![0, 1]), (1, 4, vec![3, 100]), (0, 4, vec![125]), (3, 4, vec![0, 50]), (5, 6, vec![7]), (125, 126, vec![0]), (0, 126, vec![125])],
        };
        for (ts, hsa, members0) in cases {
            for g in [1u8, 2] {
                let cfg = RCfg { ts, hsa, gap_factor: g, slot_bits: 100, ttr: None, period_div: 8, members0: members0.clone(), scripts: vec![], multi: false, mon: RMon::C05, max_visits: if hsa > 100 { 140 } else { tier.pick(14, 24) }, join_budget: tier.pick(1, 2), origin_us: 0, baud: 1 };
                rcfgs.push((format!("reactive TS{ts} HSA{hsa} G{g} members{members0:?}"), cfg, 60, tier.pick(120.0, 3000.0), tier.pick(60_000, 600_000)));
            }
        }
        let mut tr = w4props::Totals::default();
        crate::props::w2rprops::explore_r(rcfgs, &mut tr);
        t.states += tr.states;
        t.transitions += tr.transitions;
        t.validated += tr.validated;
        t.worlds += tr.worlds;
        t.per_world.extend(tr.per_world);
        t.caps.extend(tr.caps);
        ctx().witness_n("c05_reactive_ring_states", tr.states);
    }
    // (iv) DP master under a real FDL station (re-execution, deviation-bounded)
    let (runs, reqs) = c05_dp_under_fdl(tier);
    t.states += runs;
    t.transitions += reqs;
    t.validated += runs;
    t.per_world.push(json!({"world": "DpMaster under a real FdlActiveStation: all answer sequences with <=2 deviations from the conforming slave", "executions": runs, "requests_answered": reqs}));
    finish_w2(t, "C05", tier, vec!["states_where_station_used_the_token", "c05_dp_under_fdl_reached_data_exchange", "c05_reactive_ring_states"])
}

pub fn replay(v: &Value) {
    if v["replay"]["world"] == "w2-dp" {
        enable_formatting_logger();
        let answers: Vec<u8> = v["replay"]["answers"].as_array().unwrap().iter().map(|x| x.as_u64().unwrap() as u8).collect();
        let n = v["replay"]["peripherals"].as_u64().unwrap() as usize;
        println!("answers: {:?}", answers.iter().map(|a| format!("{:?}", DP_ANSWERS[*a as usize])).collect::<Vec<_>>());
        println!("result: {:?}", dp_under_fdl(n, &answers, false, answers.len() + 6));
        return;
    }
    if v["replay"]["world"] == "w2r" {
        enable_formatting_logger();
        crate::w2r::replay(v);
        return;
    }
    if v["replay"]["world"] == "w4" {
        enable_formatting_logger();
        w4::replay(v);
    } else {
        if v["property"] == "C05" {
            enable_formatting_logger();
        }
        crate::w2::replay(v);
    }
}

// ------------------------------------------------------------------------------------------------
// C05 (iv): the DP master under a real FDL station. `DpMaster` cannot be cloned, so this world is
// explored by re-execution: every sequence of environment answers with at most `k` deviations from the
// default (the reference slave's own reply) is run from scratch.

#[derive(Clone, Copy, Debug, PartialEq, Eq)]
pub enum DpAns {
    /// the reference slave executes the request and answers
    Slave,
    Silence,
    Sc,
    /// a request-type telegram from the addressed station (echo of the function code)
    RequestEcho,
    /// a well-formed response from another station
    ForeignSource,
    /// a well-formed response of the addressed station to another master
    ForeignDest,
    /// a token telegram from the addressed station
    Token,
    /// a few undecodable bytes
    Garbage,
    /// the slave's reply cut off after 4 bytes
    Truncated,
    /// diagnostics reply with an extended block of length 0 (only meaningful for diagnostics requests)
    DiagExtLen0,
    /// response with an unusual status (RR)
    StatusRr,
    /// a data response 244 bytes long
    Long,
    /// API calls instead of an answer: the user takes the FDL station offline right after the request went
    /// out and online again three slot times later (the DP master keeps its outstanding request)
    FdlRestart,
}

pub const DP_ANSWERS: [DpAns; 13] = [DpAns::Slave, DpAns::Silence, DpAns::Sc, DpAns::RequestEcho, DpAns::ForeignSource, DpAns::ForeignDest, DpAns::Token, DpAns::Garbage, DpAns::Truncated, DpAns::DiagExtLen0, DpAns::StatusRr, DpAns::Long, DpAns::FdlRestart];

/// Run one answer sequence (index k of `answers` applies to the k-th acknowledged request of the station;
/// beyond the list: default). Returns Err(panic) or Ok(number of requests seen).
pub fn dp_under_fdl(n_periph: usize, answers: &[u8], with_member: bool, max_requests: usize) -> Result<usize, PanicInfo> {
    dp_under_fdl_images(n_periph, answers, with_member, max_requests).map(|x| x.0)
}

/// Same run, additionally judging the process images (C04, drive mode (b)): while the answer to the
/// outstanding request is anything but the reference slave's own reply, no input image may change and no
/// DataExchanged event may be reported. Returns (requests seen, first image violation).
pub fn dp_under_fdl_images(n_periph: usize, answers: &[u8], with_member: bool, max_requests: usize) -> Result<(usize, Option<String>), PanicInfo> {
    use crate::bus::{BusSim, BIT};
    use crate::dprig::*;
    use profirust::fdl::FdlActiveStation;
    use profirust::time::Instant;
    let ps = [PeriphCfg::simple(9, 2, 1), PeriphCfg::simple(11, 0, 2), PeriphCfg::simple(4, 1, 0)];
    let cfg = RigCfg::basic(ps[..n_periph].to_vec());
    let (mut dp, _handles) = make_master(&cfg);
    for (i, h) in _handles.iter().enumerate() {
        // recognisable initial input images
        let _ = (i, h);
    }
    let params = profirust::fdl::ParametersBuilder::new(2, profirust::Baudrate::B500000).slot_bits(300).highest_station_address(4).gap_wait_rotations(10).build();
    let slot_us = params.slot_time().total_micros() as i64;
    let mut fdl = FdlActiveStation::new(params);
    fdl.set_online();
    let mut slaves: Vec<RefSlave> = cfg.periphs.iter().map(RefSlave::new).collect();
    let mut bus = BusSim::new(500000, 2);
    bus.retire_port(1);
    let p = slot_us / 8;
    let mut now = 0i64;
    let mut seen = 0usize;
    let mut requests = 0usize;
    let mut env_queue: Vec<(i64, Vec<u8>)> = vec![];
    let _ = with_member;
    let horizon = slot_us * 4000;
    let mut last_ans: Option<(DpAns, usize)> = None;
    let mut image_violation: Option<String> = None;
    let mut back_online_at: Option<i64> = None;
    while now < horizon && requests < max_requests {
        env_queue.sort_by_key(|e| e.0);
        while let Some((t, _)) = env_queue.first() {
            if *t > now + p {
                break;
            }
            let (t, bytes) = env_queue.remove(0);
            let t = t.max(bus.quiet_from_us() + 1).max(now);
            bus.transmit(1, t, &bytes);
        }
        now += p;
        let t = Instant::from_micros(now);
        if back_online_at.map(|b| now >= b).unwrap_or(false) {
            back_online_at = None;
            if let Err(pn) = catch(|| fdl.set_online()) {
                return Err(pn);
            }
        }
        let before: Vec<Vec<u8>> = _handles.iter().map(|h| dp.get_mut(*h).pi_i().to_vec()).collect();
        let r = catch(|| {
            let mut port = bus.port(0);
            fdl.poll(t, &mut port, &mut dp)
        });
        if let Err(pn) = r {
            return Err(pn);
        }
        let ev = dp.take_last_events();
        if let Some((ans, si)) = last_ans {
            if ans != DpAns::Slave && image_violation.is_none() {
                let after: Vec<Vec<u8>> = _handles.iter().map(|h| dp.get_mut(*h).pi_i().to_vec()).collect();
                let dx = matches!(ev.peripheral, Some((_, profirust::dp::PeripheralEvent::DataExchanged)));
                // Sc is a legitimate Data_Exchange answer only for an input-less peripheral
                let sc_ok = ans == DpAns::Sc && cfg.periphs[si].in_len == 0;
                if after != before {
                    image_violation = Some(format!("input image changed while the outstanding request was answered with {:?}", ans));
                } else if dx && !sc_ok {
                    image_violation = Some(format!("DataExchanged reported while the outstanding request was answered with {:?}", ans));
                }
            }
        }
        while seen < bus.trace.len() {
            let tx = bus.trace[seen].clone();
            seen += 1;
            if tx.sender != 0 {
                continue;
            }
            let f = match rc::decode(&tx.bytes) {
                rc::RDec::Frame(f, _) => f,
                _ => continue,
            };
            if !f.req_expects_reply() || f.is_fdl_status_req() {
                continue;
            }
            let da = f.da().unwrap();
            let si = match slaves.iter().position(|s| s.addr == da) {
                Some(i) => i,
                None => continue,
            };
            let mut ans = DP_ANSWERS[*answers.get(requests).unwrap_or(&0) as usize % DP_ANSWERS.len()];
            requests += 1;
            let genuine = if ans != DpAns::Silence { slaves[si].handle(&f) } else { None };
            // a reply of at most 4 bytes (a short confirmation) is not changed by cutting it after 4 bytes
            if ans == DpAns::Truncated && genuine.as_ref().map(|g| g.len() <= 4).unwrap_or(false) {
                ans = DpAns::Slave;
            }
            last_ans = Some((ans, si));
            let t11 = bus.us_ceil(tx.end + 11 * BIT) + 1;
            let d = |da: u8, sa: u8, fc: u8, dsap: Option<u8>, ssap: Option<u8>, du: Vec<u8>| rc::encode(&rc::RFrame::Data { da, sa, dsap, ssap, fc, du });
            let bytes: Option<Vec<u8>> = match ans {
                DpAns::Slave => genuine,
                DpAns::Silence => None,
                DpAns::Sc => Some(vec![rc::SC]),
                DpAns::RequestEcho => Some(d(2, da, f.fc().unwrap(), None, None, vec![])),
                DpAns::ForeignSource => Some(d(2, 77, 0x08, Some(62), Some(60), vec![0, 4, 0, 2, 0x13, 0x37])),
                DpAns::ForeignDest => Some(d(3, da, 0x08, None, None, vec![1, 2])),
                DpAns::Token => Some(rc::encode(&rc::token(2, da))),
                DpAns::Garbage => Some(vec![0x00, 0xFF, 0x68]),
                DpAns::Truncated => genuine.map(|g| g[..g.len().min(4)].to_vec()),
                DpAns::DiagExtLen0 => Some(d(2, da, 0x08, Some(62), Some(60), vec![0x08, 0x04, 0, 2, 0x13, 0x37, 0x40])),
                DpAns::StatusRr => Some(d(2, da, 0x02, None, None, vec![])),
                DpAns::Long => Some(d(2, da, 0x08, None, None, vec![0x5A; 244])),
                DpAns::FdlRestart => {
                    if let Err(pn) = catch(|| fdl.set_offline()) {
                        return Err(pn);
                    }
                    back_online_at = Some(now + 3 * slot_us);
                    None
                }
            };
            if let Some(b) = bytes {
                env_queue.push((t11, b));
            }
        }
        if bus.trace.len() > 1024 {
            bus.trace.clear();
            seen = 0;
        }
    }
    Ok((requests, image_violation))
}

/// all answer sequences of length `len` with at most `k` non-default entries
pub fn deviation_sequences(len: usize, k: usize, alphabet: usize) -> Vec<Vec<u8>> {
    let mut out = vec![vec![0u8; 0]];
    fn rec(pos: usize, len: usize, left: usize, alphabet: usize, cur: &mut Vec<u8>, out: &mut Vec<Vec<u8>>) {
        if pos == len || left == 0 {
            return;
        }
        for p in pos..len {
            for a in 1..alphabet {
                let mut n = cur.clone();
                n.resize(p, 0);
                n.push(a as u8);
                out.push(n.clone());
                rec(p + 1, len, left - 1, alphabet, &mut n, out);
            }
        }
    }
    rec(0, len, k, alphabet, &mut vec![], &mut out);
    out
}

pub fn c05_dp_under_fdl(tier: Tier) -> (u64, u64) {
    use rayon::prelude::*;
    use std::sync::atomic::{AtomicU64, Ordering};
    let runs = AtomicU64::new(0);
    let reqs = AtomicU64::new(0);
    for n_periph in [1usize, 2] {
        let len = if n_periph == 1 { tier.pick(9, 12) } else { tier.pick(10, 14) };
        let k = if n_periph == 1 { 2 } else { tier.pick(1, 2) };
        let seqs = deviation_sequences(len, k, DP_ANSWERS.len());
        seqs.par_iter().for_each(|s| {
            if ctx().should_stop() {
                return;
            }
            let desc = json!({"world": "w2-dp", "peripherals": n_periph, "answers": s});
            let d2 = desc.clone();
            let r = guarded(move || d2.clone(), || dp_under_fdl(n_periph, s, false, len + 6));
            runs.fetch_add(1, Ordering::Relaxed);
            match r {
                Ok(n) => {
                    reqs.fetch_add(n as u64, Ordering::Relaxed);
                    if n >= 5 {
                        ctx().witness("c05_dp_under_fdl_reached_data_exchange");
                    }
                }
                Err(p) => {
                    let names: Vec<String> = s.iter().map(|a| format!("{:?}", DP_ANSWERS[*a as usize])).collect();
                    ctx().violation(format!("c05.dp_under_fdl.{}", p.sig()), format!("panic in poll() with the DP master attached: {}:{} {} [peripherals {n_periph}, answers {:?}]", p.file, p.line, p.msg, names), desc, s.len() as u64);
                }
            }
        });
    }
    (runs.load(Ordering::Relaxed), reqs.load(Ordering::Relaxed))
}


/// C04 drive mode (b): the process images under a real FDL station and stray / foreign replies.
pub fn c04_images_under_fdl(tier: Tier) -> (u64, u64) {
    use rayon::prelude::*;
    use std::sync::atomic::{AtomicU64, Ordering};
    let runs = AtomicU64::new(0);
    let reqs = AtomicU64::new(0);
    for n_periph in [1usize, 2] {
        let len = tier.pick(9, 12);
        let seqs = deviation_sequences(len, tier.pick(1, 2), DP_ANSWERS.len());
        seqs.par_iter().for_each(|s| {
            if ctx().should_stop() {
                return;
            }
            let desc = json!({"world": "w2-dp", "peripherals": n_periph, "answers": s});
            let d2 = desc.clone();
            let r = guarded(move || d2.clone(), || dp_under_fdl_images(n_periph, s, false, len + 6));
            runs.fetch_add(1, Ordering::Relaxed);
            let names: Vec<String> = s.iter().map(|a| format!("{:?}", DP_ANSWERS[*a as usize])).collect();
            match r {
                Ok((n, None)) => {
                    reqs.fetch_add(n as u64, Ordering::Relaxed);
                    if n >= 6 {
                        ctx().witness("c04_under_fdl_data_exchange_reached");
                    }
                }
                Ok((_, Some(v))) => {
                    ctx().violation("c04.under_fdl.image_or_event_on_foreign_reply", format!("{v} [peripherals {n_periph}, answers {:?}]", names), desc, s.len() as u64);
                }
                Err(p) => {
                    ctx().violation(format!("c04.under_fdl.{}", p.sig()), format!("panic: {} [answers {:?}]", p.msg, names), desc, s.len() as u64);
                }
            }
        });
    }
    (runs.load(Ordering::Relaxed), reqs.load(Ordering::Relaxed))
}
