//! Property runners over world W3 (rings of real stations): C01, C02 (+ closed LAS check), C06, C13.

use crate::bus::Fault;
use crate::engine::*;
use crate::w2::BAUDS;
use crate::w3::*;
use rayon::prelude::*;
use serde_json::{json, Value};
use std::collections::{BTreeMap, HashSet, VecDeque};
use std::sync::atomic::{AtomicU64, Ordering};
use std::sync::{Arc, Mutex};

/// Convergence bound of DESIGN 5.4 in µs: (T_conv, stability window, R)
pub fn bounds_us(n: usize, a_max: u8, hsa: u8, g: u8, slot_bits: u16, max_period_bits: f64, baud: usize) -> (i64, i64, i64) {
    let tsl = slot_bits as f64;
    let p = max_period_bits;
    let r = n as f64 * (132.0 + tsl + 6.0 * p);
    let t_claim = (6.0 + 2.0 * a_max as f64) * tsl + 2.0 * p;
    let t_scan = hsa as f64 * (99.0 + tsl + 3.0 * p);
    let t_join = (hsa as f64 + g as f64 + 6.0) * r;
    let t_conv = 2.0 * (t_claim + t_scan + n as f64 * t_join);
    let stab = (hsa as f64 + g as f64 + 2.0) * r;
    let bit_us = 1_000_000.0 / BAUDS[baud].1 as f64;
    ((t_conv * bit_us) as i64, (stab * bit_us) as i64, (r * bit_us) as i64)
}

#[derive(Clone, Debug)]
pub struct Scenario {
    pub addrs: Vec<u8>,
    pub hsa: u8,
    pub gap: u8,
    pub baud: usize,
    pub slot_bits: u16,
    pub ttr: Option<u32>,
    pub divs: Vec<i64>,
    pub phases: Vec<i64>,
    pub loads: Vec<Load>,
    /// (station index, join time in units of R after the others have converged); empty = all at t=0
    pub late: Vec<(usize, i64)>,
    pub responders: Vec<(u8, u32)>,
}

impl Scenario {
    pub fn build(&self) -> W3Cfg {
        let n = self.addrs.len();
        let a_max = *self.addrs.iter().max().unwrap();
        let max_p = self.divs.iter().map(|d| self.slot_bits as f64 / *d as f64).fold(0.0, f64::max);
        let (t_conv, stab, r) = bounds_us(n, a_max, self.hsa, self.gap, self.slot_bits, max_p, self.baud);
        let mut join = vec![0i64; n];
        let mut last_change = 0;
        for (i, k) in &self.late {
            // the late joiner comes when the others had time to converge, shifted by k quarter-rotations
            join[*i] = t_conv + k * r / 4 + (*i as i64) * 37;
            last_change = last_change.max(join[*i]);
        }
        let converge_by = last_change + t_conv;
        W3Cfg {
            stations: (0..n).map(|i| StationCfg { addr: self.addrs[i], join_us: join[i], div: self.divs[i % self.divs.len()], phase3: self.phases[i % self.phases.len()], load: self.loads[i % self.loads.len()], crash: None }).collect(),
            hsa: self.hsa,
            gap: self.gap,
            ttr: self.ttr,
            baud: self.baud,
            slot_bits: self.slot_bits,
            stalls: vec![],
            faults: vec![],
            responders: self.responders.clone(),
            horizon_us: converge_by + stab,
            converge_by_us: converge_by,
        }
    }
    /// inside the latency envelope of DESIGN 5.5: 3*P_max + 44 bit + one poll of the passer < Tslot
    pub fn inside_envelope(&self) -> bool {
        let pmax = self.divs.iter().map(|d| self.slot_bits as f64 / *d as f64).fold(0.0, f64::max);
        3.0 * pmax + 44.0 + pmax < self.slot_bits as f64
    }
}

pub fn subsets(universe: &[u8], k: usize) -> Vec<Vec<u8>> {
    fn rec(u: &[u8], k: usize, start: usize, cur: &mut Vec<u8>, out: &mut Vec<Vec<u8>>) {
        if cur.len() == k {
            out.push(cur.clone());
            return;
        }
        for i in start..u.len() {
            cur.push(u[i]);
            rec(u, k, i + 1, cur, out);
            cur.pop();
        }
    }
    let mut out = vec![];
    rec(universe, k, 0, &mut vec![], &mut out);
    out
}

pub fn scenario_set(tier: Tier, with_loads: bool) -> Vec<Scenario> {
    let mut v = vec![];
    let hsas: Vec<u8> = tier.pick(vec![6], vec![4, 6, 10]);
    for hsa in hsas {
        let universe: Vec<u8> = (0..hsa).collect();
        let mut sets: Vec<Vec<u8>> = subsets(&universe, 2);
        let threes = subsets(&universe, 3);
        // three-station sets: adjacent, wrap-around, HSA-1, TS-1, address 0
        for s in threes.iter() {
            let interesting = s.contains(&(hsa - 1)) || s.contains(&0) || (s[1] == s[0] + 1) || (s[2] == s[1] + 1);
            if tier == Tier::Thorough || (interesting && (s[0] + s[1] + s[2]) % 2 == 0) {
                sets.push(s.clone());
            }
        }
        if tier == Tier::Thorough && hsa >= 6 {
            sets.push(vec![0, 1, 2, hsa - 1]);
            sets.push(vec![0, 2, 3, hsa - 2, hsa - 1]);
            sets.push(vec![1, 2, 3, 4]);
        }
        for addrs in sets {
            let gaps: Vec<u8> = tier.pick(vec![1], vec![1, 2, 10]);
            for gap in gaps {
                let bauds: Vec<usize> = tier.pick(vec![1, 2], vec![0, 1, 2, 3, 4]);
                for baud in bauds {
                    let min_slot: u16 = [100, 100, 200, 300, 1000][baud];
                    for slot_bits in [min_slot, min_slot.max(300)] {
                        if slot_bits == min_slot && min_slot >= 300 && baud != 4 {
                            // same value twice
                            if min_slot.max(300) == min_slot {
                                continue;
                            }
                        }
                        let div_patterns: Vec<Vec<i64>> = tier.pick(vec![vec![16], vec![4], vec![16, 4], vec![4, 16]], vec![vec![16], vec![8], vec![4], vec![16, 4], vec![4, 16], vec![8, 4, 16]]);
                        for divs in div_patterns {
                            let phase_patterns: Vec<Vec<i64>> = tier.pick(vec![vec![0, 1, 2]], vec![vec![0], vec![0, 1, 2], vec![2, 0, 1]]);
                            for phases in phase_patterns {
                                // thorough: not the full product for every set
                                if tier == Tier::Thorough && (gap != 1 || baud != 1) && addrs.len() > 2 && phases.len() == 1 {
                                    continue;
                                }
                                let loads: Vec<Vec<Load>> = if with_loads { vec![vec![Load::None], vec![Load::SdnAlways, Load::None], vec![Load::SrdAlways(40)]] } else { vec![vec![Load::None]] };
                                for load in loads {
                                    let mut lates: Vec<Vec<(usize, i64)>> = vec![vec![]];
                                    if gap == 1 && baud == 1 && phases.len() > 1 {
                                        for i in 0..addrs.len() {
                                            for k in tier.pick(vec![0i64, 2], vec![0, 1, 2, 3]) {
                                                lates.push(vec![(i, k)]);
                                            }
                                        }
                                    }
                                    for late in lates {
                                        if !late.is_empty() && !matches!(load[0], Load::None) {
                                            continue;
                                        }
                                        v.push(Scenario { addrs: addrs.clone(), hsa, gap, baud, slot_bits, ttr: None, divs: divs.clone(), phases: phases.clone(), loads: load.clone(), late, responders: vec![(40, 0)] });
                                    }
                                }
                            }
                        }
                    }
                }
            }
        }
    }
    v
}

#[derive(Clone, Copy, PartialEq, Eq, Debug)]
pub enum Which {
    C01,
    C02,
}

/// Evaluate one finished run for the given property; returns violations (sig, detail).
pub fn judge(run: &W3Run, which: Which) -> Vec<(String, String)> {
    let mut out = vec![];
    match which {
        Which::C01 => {
            if let Some(p) = &run.panic {
                // a panic ends the run; C05 owns panics, C01 only notes that the run was cut
                let _ = p;
            }
            for (s, d) in run.c01.violations.iter().take(3) {
                out.push((s.clone(), d.clone()));
            }
        }
        Which::C02 => {
            if let Some(p) = &run.panic {
                out.push((format!("c02.run_ended_by_panic.{}", p.split(' ').next().unwrap_or("")), p.clone()));
            } else if let Err((s, d)) = c02_check(run) {
                out.push((s, d));
            }
        }
    }
    out
}

pub struct Tally {
    pub runs: AtomicU64,
    pub polls: AtomicU64,
    pub choice_points: AtomicU64,
    pub effective_points: AtomicU64,
    pub outcomes: Mutex<BTreeMap<String, u64>>,
    pub max_ratio: Mutex<f64>,
}

impl Tally {
    pub fn new() -> Self {
        Tally { runs: AtomicU64::new(0), polls: AtomicU64::new(0), choice_points: AtomicU64::new(0), effective_points: AtomicU64::new(0), outcomes: Mutex::new(BTreeMap::new()), max_ratio: Mutex::new(0.0) }
    }
}

fn report(which: Which, sc: &Scenario, cfg: &W3Cfg, viols: &[(String, String)], stalls: &[(usize, u32)]) {
    for (sig, detail) in viols {
        let mut c = cfg.clone();
        c.stalls = stalls.to_vec();
        let sig = if which == Which::C01 && !sc.inside_envelope() && sig.starts_with("c01.r1") { format!("{sig}.outside_latency_envelope") } else { sig.clone() };
        ctx().violation(
            sig,
            format!("{detail} [stations {:?} HSA={} G={} baud={} slot={} divs={:?} phases={:?} loads={:?} late={:?} stalls={:?}]", sc.addrs, sc.hsa, sc.gap, BAUDS[sc.baud].1, sc.slot_bits, sc.divs, sc.phases, sc.loads, sc.late, stalls),
            json!({"world": "w3", "cfg": c.to_json()}),
            (sc.addrs.len() * 10 + stalls.len() * 100 + sc.late.len() * 5) as u64 + sc.hsa as u64,
        );
    }
}

/// Convergence time actually observed: first instant from which every later token pass is in order.
fn observed_convergence_ratio(run: &W3Run) -> f64 {
    let cfg = &run.cfg;
    let last_change = cfg.stations.iter().map(|s| s.join_us).max().unwrap_or(0);
    let mut online: Vec<u8> = cfg.stations.iter().map(|s| s.addr).collect();
    online.sort();
    let toks = tokens_in(run, 0, cfg.horizon_us);
    let mut last_bad = last_change;
    for w in toks.windows(2) {
        let (sa, da, t) = w[1];
        let ok = online.iter().position(|x| *x == sa).map(|k| online[(k + 1) % online.len()] == da).unwrap_or(false) && w[0].1 == sa;
        if !ok {
            last_bad = t;
        }
    }
    (last_bad - last_change) as f64 / (cfg.converge_by_us - last_change).max(1) as f64
}

/// Default schedule plus all placements of up to `k` poll stalls (deviation-bounded exploration).
pub fn explore_scenario(which: Which, sc: &Scenario, k: u8, tally: &Tally) {
    let cfg = Arc::new(sc.build());
    let mut base = W3Run::new(&cfg);
    explore_from(which, sc, &cfg, &mut base, k, tally, true);
}

fn explore_from(which: Which, sc: &Scenario, cfg: &Arc<W3Cfg>, run: &mut W3Run, budget: u8, tally: &Tally, is_default: bool) {
    while !run.done() {
        if budget > 0 {
            let snapshot = run.clone();
            let (i, effective) = run.step();
            tally.choice_points.fetch_add(1, Ordering::Relaxed);
            if effective && run.online[i] && !run.crashed[i] {
                tally.effective_points.fetch_add(1, Ordering::Relaxed);
                let mut fork = snapshot;
                fork.stall_next(i);
                explore_from(which, sc, cfg, &mut fork, budget - 1, tally, false);
            }
        } else {
            run.step();
        }
        if ctx().should_stop() {
            return;
        }
    }
    tally.runs.fetch_add(1, Ordering::Relaxed);
    tally.polls.fetch_add(run.polls, Ordering::Relaxed);
    let viols = judge(run, which);
    if viols.is_empty() {
        *tally.outcomes.lock().unwrap().entry(format!("ok.tokens>={}", (run.c01.tokens_seen / 50) * 50)).or_insert(0) += 1;
        if which == Which::C02 && is_default {
            let r = observed_convergence_ratio(run);
            let mut m = tally.max_ratio.lock().unwrap();
            if r > *m {
                *m = r;
            }
        }
    } else {
        *tally.outcomes.lock().unwrap().entry(viols[0].0.clone()).or_insert(0) += 1;
        report(which, sc, cfg, &viols, &run.stalls_used);
    }
    if run.c01.tokens_seen > 10 {
        ctx().witness("w3_token_circulated");
    }
}

fn critical(sc: &Scenario) -> bool {
    // adjacent addresses / wrap-around / HSA-1 with the slow poll grid, no late joiners
    sc.late.is_empty() && sc.divs == vec![4] && sc.baud == 1 && sc.slot_bits >= 300 && matches!(sc.loads[0], Load::None)
}

pub fn run_ring(which: Which, tier: Tier) -> ! {
    let scenarios = scenario_set(tier, which == Which::C01);
    let tally = Tally::new();
    let t0 = std::time::Instant::now();
    let budget_s = tier.pick(45.0, 2400.0);
    let skipped = AtomicU64::new(0);
    // k = 0 everywhere (quick) / k = 1 everywhere (thorough: on the critical ones k = 2 is too costly, k = 1 on all)
    scenarios.par_iter().for_each(|sc| {
        if t0.elapsed().as_secs_f64() > budget_s || ctx().should_stop() {
            skipped.fetch_add(1, Ordering::Relaxed);
            return;
        }
        let k = match tier {
            Tier::Quick => 0,
            Tier::Thorough => {
                if sc.late.is_empty() && sc.addrs.len() <= 3 && sc.baud == 1 && sc.gap == 1 {
                    1
                } else {
                    0
                }
            }
        };
        explore_scenario(which, sc, k, &tally);
    });
    // k = 1 on a few critical configurations in the quick tier as well
    let mut k1 = 0;
    if tier == Tier::Quick {
        let crit: Vec<&Scenario> = scenarios.iter().filter(|s| critical(s)).collect();
        let pick: Vec<&Scenario> = crit.iter().step_by((crit.len() / 4).max(1)).take(4).copied().collect();
        k1 = pick.len();
        pick.par_iter().for_each(|sc| explore_scenario(which, sc, 1, &tally));
    }
    let mut ev = Evidence::default();
    ev.level = "model_checking";
    ev.states = tally.runs.load(Ordering::Relaxed);
    ev.transitions = tally.polls.load(Ordering::Relaxed);
    ev.traces_validated = ev.states;
    ev.evaluations = ev.states;
    ev.distinct_nontrivial = ev.states;
    ev.rule = "every (station set, HSA, gap factor, baud, slot time, poll-period pattern, phase pattern, load, join pattern) configuration once on the default schedule, plus every placement of one poll stall (Tslot/4) at every effective poll where a stall budget is given; states = distinct executions (configuration x schedule) run to the horizon on the real stations, transitions = polls executed; all executions are distinct by construction".into();
    ev.samples = scenarios.iter().step_by(scenarios.len() / 4 + 1).map(|s| json!(format!("{:?}", s))).collect();
    let sk = skipped.load(Ordering::Relaxed);
    ev.exhaustive = sk == 0;
    if sk > 0 {
        ev.caps_hit.push(format!("time budget {budget_s}s: {sk} of {} scenarios not run", scenarios.len()));
    }
    ev.bounds = json!({"scenarios": scenarios.len(), "stall_budget": tier.pick("0 everywhere, 1 on selected critical configurations", "1 on all <=3-station 19.2k configurations without late joiner, 0 elsewhere"), "critical_k1": k1});
    let outcomes = tally.outcomes.lock().unwrap().clone();
    ev.distinct_outcomes = outcomes.len() as u64;
    ev.extra.insert("outcomes".into(), json!(outcomes));
    ev.extra.insert("choice_points".into(), json!(tally.choice_points.load(Ordering::Relaxed)));
    ev.extra.insert("effective_choice_points".into(), json!(tally.effective_points.load(Ordering::Relaxed)));
    ev.extra.insert("largest_observed_convergence_over_bound".into(), json!(*tally.max_ratio.lock().unwrap()));
    ev.required_witnesses = vec!["w3_token_circulated"];
    ev.assumptions.push("cold-start claim race and stale PHY buffers at set_online are excluded (DESIGN 5.3)".into());
    if which == Which::C02 {
        las_closure(&mut ev);
    }
    finish(ev)
}

// ------------------------------------------------------------------------------------------------
// C02(b): the LAS bookkeeping in isolation — complete closure of the reachable states

fn las_fp(r: &profirust::fdl::VerifTokenRing) -> String {
    format!("{:?}", r)
}

pub fn las_closure(ev: &mut Evidence) {
    use profirust::fdl::VerifTokenRing as TR;
    let universe: [u8; 8] = [0, 1, 2, 3, 4, 5, 126, 200];
    let mut total_states = 0u64;
    let mut total_trans = 0u64;
    for ts in [0u8, 2, 5] {
        let params = ParametersFor(ts).get();
        let init = TR::new(&params);
        let mut seen: HashSet<String> = HashSet::new();
        let mut q: VecDeque<TR> = VecDeque::new();
        seen.insert(las_fp(&init));
        q.push_back(init.clone());
        let mut states: Vec<TR> = vec![];
        while let Some(s) = q.pop_front() {
            states.push(s.clone());
            let mut succ: Vec<(String, TR)> = vec![];
            for sa in universe {
                for da in universe {
                    let mut n = s.clone();
                    match catch(|| n.witness_token_pass(sa, da)) {
                        Ok(()) => {
                            if (sa > 125 || da > 125) && n != s {
                                ctx().violation("c02.las.invalid_address_changed_state", format!("TS={ts}: witness_token_pass({sa},{da}) changed {:?}", s), json!({"kind":"las","ts":ts,"state":las_fp(&s),"op":[sa,da]}), 1);
                            }
                            succ.push((format!("w{sa},{da}"), n));
                        }
                        Err(p) => {
                            ctx().violation("c02.las.panic", format!("TS={ts}: witness_token_pass({sa},{da}) in {:?}: {}", s, p.msg), json!({"kind":"las","ts":ts,"state":las_fp(&s),"op":[sa,da]}), 1);
                        }
                    }
                }
            }
            {
                let mut n = s.clone();
                n.claim_token();
                succ.push(("claim".into(), n));
            }
            for a in [0u8, 1, 2, 3, 4, 5] {
                if a != ts {
                    let mut n = s.clone();
                    if catch(|| n.set_next_station(a)).is_ok() {
                        succ.push((format!("setns{a}"), n));
                    }
                    let mut n = s.clone();
                    if catch(|| n.remove_station(a)).is_ok() {
                        succ.push((format!("rm{a}"), n));
                    }
                }
            }
            for (_, n) in succ {
                total_trans += 1;
                // invariant: NS / PS are the cyclic successor / predecessor of TS in LAS ∪ {TS}
                let mut las: Vec<u8> = n.iter_active_stations().collect();
                if !las.contains(&ts) {
                    las.push(ts);
                }
                las.sort();
                let k = las.iter().position(|x| *x == ts).unwrap();
                let ns = las[(k + 1) % las.len()];
                let ps = las[(k + las.len() - 1) % las.len()];
                if n.ready_for_ring() && (n.next_station() != ns || n.previous_station() != ps) {
                    ctx().violation("c02.las.neighbours_inconsistent", format!("TS={ts}: {:?} but LAS∪TS = {las:?}", n), json!({"kind":"las","ts":ts,"state":las_fp(&n)}), 1);
                }
                if seen.insert(las_fp(&n)) {
                    q.push_back(n);
                }
            }
            if seen.len() > 2_000_000 {
                machinery_failure("LAS state space did not close");
            }
        }
        total_states += states.len() as u64;
        // differential "from anywhere" oracle: three consistent rotations of any ring R containing TS
        let others: Vec<u8> = (0..6u8).filter(|a| *a != ts).collect();
        let mut rings: Vec<Vec<u8>> = vec![];
        for mask in 0..(1u32 << others.len()) {
            let mut r: Vec<u8> = others.iter().enumerate().filter(|(i, _)| mask & (1 << i) != 0).map(|(_, a)| *a).collect();
            r.push(ts);
            r.sort();
            rings.push(r);
        }
        let bad = AtomicU64::new(0);
        states.par_iter().for_each(|s| {
            for ring in &rings {
                if ring.len() < 2 {
                    continue;
                }
                let mut n = s.clone();
                for _rot in 0..3 {
                    for i in 0..ring.len() {
                        n.witness_token_pass(ring[i], ring[(i + 1) % ring.len()]);
                    }
                }
                let mut las: Vec<u8> = n.iter_active_stations().collect();
                if !las.contains(&ts) {
                    las.push(ts);
                }
                las.sort();
                let k = ring.iter().position(|x| *x == ts).unwrap();
                let ok = n.ready_for_ring() && las == *ring && n.next_station() == ring[(k + 1) % ring.len()] && n.previous_station() == ring[(k + ring.len() - 1) % ring.len()];
                if !ok && bad.fetch_add(1, Ordering::Relaxed) < 3 {
                    ctx().violation("c02.las.no_convergence_from_state", format!("TS={ts}: from {:?}, three rotations of {ring:?} end in {:?}", s, n), json!({"kind":"las","ts":ts,"state":las_fp(s),"ring":ring}), ring.len() as u64);
                }
            }
        });
        total_trans += (states.len() * rings.len()) as u64;
        // after only one rotation from the initial state the ring is not yet declared ready
        let mut n = TR::new(&params);
        let ring = [ts, (ts + 1) % 6, (ts + 3) % 6];
        let mut r = ring.to_vec();
        r.sort();
        for i in 0..r.len() {
            n.witness_token_pass(r[i], r[(i + 1) % r.len()]);
        }
        if n.ready_for_ring() {
            ctx().violation("c02.las.ready_after_one_rotation", format!("TS={ts}: ready after a single rotation of {r:?}"), json!({"kind":"las","ts":ts}), 1);
        }
    }
    ctx().witness_n("las_states", total_states);
    ev.extra.insert("las_closure_states".into(), json!(total_states));
    ev.extra.insert("las_closure_transitions".into(), json!(total_trans));
    ev.states += total_states;
    ev.transitions += total_trans;
    ev.required_witnesses.push("las_states");
}

struct ParametersFor(u8);
impl ParametersFor {
    fn get(&self) -> profirust::fdl::Parameters {
        profirust::fdl::ParametersBuilder::new(self.0, profirust::Baudrate::B19200).highest_station_address(6.max(self.0 + 1)).build()
    }
}

pub fn replay(v: &Value) {
    if v["replay"]["kind"] == "las" {
        println!("LAS counterexample: {}", v["replay"]);
        return;
    }
    crate::w3::replay(v);
}

#[allow(dead_code)]
fn unused(_: Fault) {}
