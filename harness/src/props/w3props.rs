//! Property runners over world W3 (rings of real stations): C01, C02 (+ closed LAS check), C06, C13.

use crate::bus::Fault;
use crate::engine::*;
use crate::w2::BAUDS;
use crate::w3::*;
use rayon::prelude::*;
use serde_json::{json, Value};
use std::collections::{BTreeMap, HashSet, VecDeque};
use std::sync::atomic::{AtomicU64, Ordering};
use std::sync::{Arc, Mutex};

/// Convergence bound of DESIGN 5.4 in µs: (T_conv, stability window, R)
pub fn bounds_us(n: usize, a_max: u8, hsa: u8, g: u8, slot_bits: u16, max_period_bits: f64, baud: usize) -> (i64, i64, i64) {
    let tsl = slot_bits as f64;
    let p = max_period_bits;
    let r = n as f64 * (132.0 + tsl + 6.0 * p);
    let t_claim = (6.0 + 2.0 * a_max as f64) * tsl + 2.0 * p;
    let t_scan = hsa as f64 * (99.0 + tsl + 3.0 * p);
    let t_join = (hsa as f64 + g as f64 + 6.0) * r;
    let t_conv = 2.0 * (t_claim + t_scan + n as f64 * t_join);
    let stab = (hsa as f64 + g as f64 + 2.0) * r;
    let bit_us = 1_000_000.0 / BAUDS[baud].1 as f64;
    ((t_conv * bit_us) as i64, (stab * bit_us) as i64, (r * bit_us) as i64)
}

#[derive(Clone, Debug)]
pub struct Scenario {
    pub addrs: Vec<u8>,
    pub hsa: u8,
    pub gap: u8,
    pub baud: usize,
    pub slot_bits: u16,
    pub ttr: Option<u32>,
    pub divs: Vec<i64>,
    pub phases: Vec<i64>,
    /// PHY model: stations deaf while transmitting
    pub deaf: bool,
    pub loads: Vec<Load>,
    /// (station index, join time in units of R after the others have converged); empty = all at t=0
    pub late: Vec<(usize, i64)>,
    pub responders: Vec<(u8, u32)>,
    /// value of the stations' clock at the start of the run (microseconds)
    pub origin: i64,
    /// further polls at the same instant after every scheduled poll
    pub repoll: u8,
    /// endurance run: the observation window after convergence is this many times the usual one (tens of
    /// thousands of token rotations: counters that wrap, state that accumulates)
    pub endurance: u32,
}

impl Scenario {
    pub fn to_json(&self) -> Value {
        json!({"addrs": self.addrs, "hsa": self.hsa, "gap": self.gap, "baud": self.baud, "slot_bits": self.slot_bits, "ttr": self.ttr, "divs": self.divs, "phases": self.phases, "deaf": self.deaf,
            "loads": self.loads.iter().map(|l| format!("{:?}", l)).collect::<Vec<_>>(), "late": self.late, "responders": self.responders, "origin": self.origin, "repoll": self.repoll, "endurance": self.endurance})
    }
    pub fn from_json(v: &Value) -> Scenario {
        let u8s = |x: &Value| -> Vec<u8> { x.as_array().unwrap().iter().map(|y| y.as_u64().unwrap() as u8).collect() };
        let i64s = |x: &Value| -> Vec<i64> { x.as_array().unwrap().iter().map(|y| y.as_i64().unwrap()).collect() };
        let load = |s: &str| -> Load {
            if s == "None" { Load::None } else if s == "SdnAlways" { Load::SdnAlways } else if s == "SdnLong" { Load::SdnLong } else if s == "SdnLowOnly" { Load::SdnLowOnly } else {
                let n: u8 = s.trim_end_matches(')').split('(').nth(1).unwrap().parse().unwrap();
                if s.starts_with("SrdAlways") { Load::SrdAlways(n) } else { Load::SrdEvery3(n) }
            }
        };
        Scenario {
            addrs: u8s(&v["addrs"]), hsa: v["hsa"].as_u64().unwrap() as u8, gap: v["gap"].as_u64().unwrap() as u8, baud: v["baud"].as_u64().unwrap() as usize,
            slot_bits: v["slot_bits"].as_u64().unwrap() as u16, ttr: v["ttr"].as_u64().map(|x| x as u32), divs: i64s(&v["divs"]), phases: i64s(&v["phases"]), deaf: v["deaf"].as_bool().unwrap_or(false),
            loads: v["loads"].as_array().unwrap().iter().map(|l| load(l.as_str().unwrap())).collect(),
            late: v["late"].as_array().unwrap().iter().map(|x| (x[0].as_u64().unwrap() as usize, x[1].as_i64().unwrap())).collect(),
            responders: v["responders"].as_array().unwrap().iter().map(|x| (x[0].as_u64().unwrap() as u8, x[1].as_u64().unwrap() as u32)).collect(),
            origin: v["origin"].as_i64().unwrap_or(0),
            repoll: v["repoll"].as_u64().unwrap_or(0) as u8,
            endurance: v["endurance"].as_u64().unwrap_or(1) as u32,
        }
    }
    pub fn build(&self) -> W3Cfg {
        let n = self.addrs.len();
        let a_max = *self.addrs.iter().max().unwrap();
        let max_p = self.divs.iter().map(|d| self.slot_bits as f64 / *d as f64).fold(0.0, f64::max);
        let (t_conv, stab, r) = bounds_us(n, a_max, self.hsa, self.gap, self.slot_bits, max_p, self.baud);
        let mut join = vec![0i64; n];
        let mut last_change = 0;
        for (i, k) in &self.late {
            // the late joiner comes when the others had time to converge, shifted by k quarter-rotations
            join[*i] = t_conv + k * r / 4 + (*i as i64) * 37;
            last_change = last_change.max(join[*i]);
        }
        let converge_by = last_change + t_conv;
        W3Cfg {
            stations: (0..n).map(|i| StationCfg { addr: self.addrs[i], join_us: join[i], div: self.divs[i % self.divs.len()], phase3: self.phases[i % self.phases.len()], load: self.loads[i % self.loads.len()], crash: None }).collect(),
            hsa: self.hsa,
            gap: self.gap,
            ttr: self.ttr,
            baud: self.baud,
            slot_bits: self.slot_bits,
            stalls: vec![],
            faults: vec![],
            responders: self.responders.clone(),
            horizon_us: converge_by + stab * self.endurance.max(1) as i64,
            converge_by_us: converge_by,
            deaf_phy: self.deaf,
            origin_us: self.origin,
            repoll: self.repoll,
        }
    }
    /// inside the latency envelope of DESIGN 5.5: 3*P_max + 44 bit + one poll of the passer < Tslot
    pub fn inside_envelope(&self) -> bool {
        let pmax = self.divs.iter().map(|d| self.slot_bits as f64 / *d as f64).fold(0.0, f64::max);
        3.0 * pmax + 44.0 + pmax < self.slot_bits as f64
    }
}

pub fn subsets(universe: &[u8], k: usize) -> Vec<Vec<u8>> {
    fn rec(u: &[u8], k: usize, start: usize, cur: &mut Vec<u8>, out: &mut Vec<Vec<u8>>) {
        if cur.len() == k {
            out.push(cur.clone());
            return;
        }
        for i in start..u.len() {
            cur.push(u[i]);
            rec(u, k, i + 1, cur, out);
            cur.pop();
        }
    }
    let mut out = vec![];
    rec(universe, k, 0, &mut vec![], &mut out);
    out
}

pub fn scenario_set(tier: Tier, with_loads: bool) -> Vec<Scenario> {
    let mut v = vec![];
    let hsas: Vec<u8> = tier.pick(vec![6], vec![4, 6, 10]);
    for hsa in hsas {
        let universe: Vec<u8> = (0..hsa).collect();
        let mut sets: Vec<Vec<u8>> = subsets(&universe, 2);
        let threes = subsets(&universe, 3);
        // three-station sets: adjacent, wrap-around, HSA-1, TS-1, address 0
        for s in threes.iter() {
            let interesting = s.contains(&(hsa - 1)) || s.contains(&0) || (s[1] == s[0] + 1) || (s[2] == s[1] + 1);
            if tier == Tier::Thorough || (interesting && (s[0] + s[1] + s[2]) % 2 == 0) {
                sets.push(s.clone());
            }
        }
        if tier == Tier::Thorough && hsa >= 6 {
            sets.push(vec![0, 1, 2, hsa - 1]);
            sets.push(vec![0, 2, 3, hsa - 2, hsa - 1]);
            sets.push(vec![1, 2, 3, 4]);
        }
        let rich = hsa == 6;
        for addrs in sets {
            let gaps: Vec<u8> = if rich { tier.pick(vec![1], vec![1, 2, 10]) } else { vec![1] };
            for gap in gaps {
                let bauds: Vec<usize> = if rich { tier.pick(vec![1, 2], vec![0, 1, 2, 3, 4]) } else { vec![1] };
                for baud in bauds {
                    let min_slot: u16 = crate::w2::MIN_SLOT[baud];
                    for slot_bits in [min_slot, min_slot.max(300)] {
                        if slot_bits == min_slot && min_slot >= 300 && baud != 4 {
                            // same value twice
                            if min_slot.max(300) == min_slot {
                                continue;
                            }
                        }
                        let div_patterns: Vec<Vec<i64>> = if rich { tier.pick(vec![vec![16], vec![4], vec![16, 4], vec![4, 16]], vec![vec![16], vec![8], vec![4], vec![16, 4], vec![4, 16], vec![8, 4, 16]]) } else { vec![vec![16], vec![4], vec![16, 4]] };
                        for divs in div_patterns {
                            // [0] = all stations polled at the very same instants (the schedule that exposed F19)
                            let phase_patterns: Vec<Vec<i64>> = if rich { tier.pick(if baud == 1 { vec![vec![0, 1, 2], vec![0]] } else { vec![vec![0, 1, 2]] }, vec![vec![0], vec![0, 1, 2], vec![2, 0, 1]]) } else { vec![vec![0, 1, 2], vec![0]] };
                            for phases in phase_patterns {
                                // thorough: not the full product for every set
                                if tier == Tier::Thorough && (gap != 1 || baud != 1) && addrs.len() > 2 && phases.len() == 1 {
                                    continue;
                                }
                                // SdnLong: 249-byte own telegrams (the predicted end of an own transmission matters: found by a seeded change)
                                let loads: Vec<Vec<Load>> = if with_loads { vec![vec![Load::None], vec![Load::SdnAlways, Load::None], vec![Load::SrdAlways(40)], vec![Load::SdnLong, Load::None]] } else { vec![vec![Load::None]] };
                                for load in loads {
                                    let mut lates: Vec<Vec<(usize, i64)>> = vec![vec![]];
                                    if gap == 1 && baud == 1 && phases.len() > 1 {
                                        for i in 0..addrs.len() {
                                            for k in tier.pick(vec![0i64, 2], vec![0, 1, 2, 3]) {
                                                lates.push(vec![(i, k)]);
                                            }
                                        }
                                    }
                                    for late in lates {
                                        if !late.is_empty() && !matches!(load[0], Load::None) {
                                            continue;
                                        }
                                        // target rotation time: builder default (HSA*5000 bit) and the builder minimum
                                        let ttrs: Vec<Option<u32>> = if late.is_empty() && gap == 1 && (baud == 1 || tier == Tier::Thorough) { vec![None, Some(256)] } else { vec![None] };
                                        for ttr in ttrs {
                                            v.push(Scenario { addrs: addrs.clone(), hsa, gap, baud, slot_bits, ttr, divs: divs.clone(), phases: phases.clone(), deaf: false, loads: load.clone(), late: late.clone(), responders: vec![(40, 0)], origin: 0, repoll: 0, endurance: 1 });
                                        }
                                    }
                                }
                            }
                        }
                    }
                }
            }
        }
    }
    // baud sweep: every baud rate of the stack (the oracles use the nominal rates of w2::BAUDS, so a
    // slip in the library's rate table shows as a pause/time-out violation; found by a seeded change)
    for baud in 0..BAUDS.len() {
        let min_slot = crate::w2::MIN_SLOT[baud];
        let sets: Vec<Vec<u8>> = tier.pick(vec![vec![2], vec![1, 4]], vec![vec![2], vec![0], vec![1, 4], vec![0, 5], vec![0, 2, 5]]);
        for addrs in sets {
            // Tslot/256 at the minimum slot time is a poll every 0.4 .. 4 bit times: fine enough for the
            // stack's own idle-time arithmetic (not the poll grid) to decide when it transmits
            let fine: Vec<Vec<i64>> = if addrs.len() == 1 || tier == Tier::Thorough { vec![vec![256]] } else { vec![] };
            for divs in tier.pick(vec![vec![16]], vec![vec![16], vec![4], vec![16, 4]]).into_iter().chain(fine) {
                for slot_bits in tier.pick(vec![min_slot], vec![min_slot, min_slot.max(300) + 11]) {
                    let loads: Vec<Vec<Load>> = if with_loads { vec![vec![Load::None], vec![Load::SrdAlways(40)]] } else { vec![vec![Load::None]] };
                    for load in loads {
                        v.push(Scenario { addrs: addrs.clone(), hsa: 6, gap: 1, baud, slot_bits, ttr: None, divs: divs.clone(), phases: vec![0, 1, 2], deaf: false, loads: load, late: vec![], responders: vec![(40, 0)], origin: 0, repoll: 0, endurance: 1 });
                    }
                }
            }
        }
    }
    // high addresses: bit-set word boundaries (63/64), the top of the address space (125) together with
    // address 0, time-outs of (6 + 2*125) slot times, GAP sweeps over more than a hundred addresses
    {
        let sets: Vec<(u8, Vec<u8>)> = tier.pick(
            vec![(66, vec![62, 64, 65]), (65, vec![0, 63, 64]), (126, vec![0, 125]), (126, vec![64, 125])],
            vec![(66, vec![62, 64, 65]), (65, vec![0, 63, 64]), (126, vec![0, 125]), (126, vec![64, 125]), (126, vec![0, 63, 64, 125]), (126, vec![124, 125]), (126, vec![31, 32, 95, 96]), (65, vec![63, 64]), (64, vec![0, 63])],
        );
        for (hsa, addrs) in sets {
            for divs in tier.pick(vec![vec![16, 4]], vec![vec![16], vec![4], vec![16, 4]]) {
                for phases in tier.pick(vec![vec![0, 1, 2]], vec![vec![0, 1, 2], vec![0]]) {
                    let loads: Vec<Vec<Load>> = if with_loads { vec![vec![Load::None], vec![Load::SrdAlways(40), Load::None]] } else { vec![vec![Load::None]] };
                    for load in loads {
                        v.push(Scenario { addrs: addrs.clone(), hsa, gap: 1, baud: 1, slot_bits: 100, ttr: None, divs: divs.clone(), phases: phases.clone(), deaf: false, loads: load, late: vec![], responders: vec![(40, 0)], origin: 0, repoll: 0, endurance: 1 });
                    }
                }
            }
        }
    }
    // clock origins
    {
        let base: Vec<Scenario> = v
            .iter()
            .filter(|sc| sc.hsa == 6 && sc.baud == 1 && sc.gap == 1 && sc.slot_bits == 100 && sc.late.is_empty() && sc.phases.len() == 3 && sc.divs == vec![16] && sc.addrs.len() <= 3 && (tier == Tier::Thorough || (sc.addrs.iter().map(|a| *a as u32).sum::<u32>() % 4 == 1 && sc.ttr.is_none())))
            .cloned()
            .collect();
        for sc in base {
            v.extend(origin_variants(&sc));
            // the same rings polled three times at every poll instant
            let mut r = sc.clone();
            r.repoll = 2;
            v.push(r);
        }
    }
    // endurance: a lone station and a two-station ring observed for some 10^5 token rotations (u8 and u16
    // counters wrap, anything that accumulates shows)
    for addrs in [vec![2u8], vec![1, 4]] {
        v.push(Scenario { addrs, hsa: 6, gap: 1, baud: 1, slot_bits: 100, ttr: None, divs: vec![16], phases: vec![0, 1, 2], deaf: false, loads: vec![Load::None], late: vec![], responders: vec![(40, 0)], origin: 0, repoll: 0, endurance: tier.pick(8_000, 20_000) });
    }
    // ... and a station that goes online only after the ring {1,4} has run for some 10^5 rotations: it must
    // still be admitted (GAP maintenance of an OLD ring; found by a seeded change whose pause counter got
    // stuck after 2^16 token visits)
    v.push(Scenario { addrs: vec![1, 3, 4], hsa: 6, gap: 1, baud: 1, slot_bits: 100, ttr: None, divs: vec![16], phases: vec![0, 1, 2], deaf: false, loads: vec![Load::None], late: vec![(1, tier.pick(400_000, 800_000))], responders: vec![(40, 0)], origin: 0, repoll: 0, endurance: 1 });
    let mut seen = std::collections::HashSet::new();
    v.retain(|sc| seen.insert(sc.to_json().to_string()));
    v
}

/// The same scenario with the stations' clock starting somewhere else than at zero: an hour before
/// the origin, just before it (zero is crossed during start-up, or in the stable phase), just before
/// 2^31 and 2^32 microseconds, at the wrap of a signed 32-bit millisecond tick, after 30 days of
/// uptime. Nothing a station does may depend on where its clock started (found by a seeded change:
/// "a new token is a later token" compared against an initial Instant::ZERO).
pub fn origin_variants(sc: &Scenario) -> Vec<Scenario> {
    let mid = sc.build().converge_by_us + 50_000;
    [-3_600_000_000i64, -200_000, -mid, (1i64 << 31) - mid, (1i64 << 32) - 200_000, (1i64 << 32) - mid, (i32::MIN as i64) * 1000, 30 * 86_400 * 1_000_000]
        .into_iter()
        .map(|o| {
            let mut v = sc.clone();
            v.origin = o;
            v
        })
        .collect()
}

#[derive(Clone, Copy, PartialEq, Eq, Debug)]
pub enum Which {
    C01,
    C02,
}

/// Evaluate one finished run for the given property; returns violations (sig, detail).
pub fn judge(run: &W3Run, which: Which) -> Vec<(String, String)> {
    let mut out = vec![];
    match which {
        Which::C01 => {
            if let Some(p) = &run.panic {
                // a panic ends the run; C05 owns panics, C01 only notes that the run was cut
                let _ = p;
            }
            for (s, d) in run.c01.violations.iter().take(3) {
                out.push((s.clone(), d.clone()));
            }
        }
        Which::C02 => {
            if let Some(p) = &run.panic {
                out.push((format!("c02.run_ended_by_panic.{}", p.split(' ').next().unwrap_or("")), p.clone()));
            } else if let Err((s, d)) = c02_check(run) {
                out.push((s, d));
            }
        }
    }
    out
}

pub struct Tally {
    pub runs: AtomicU64,
    pub polls: AtomicU64,
    pub choice_points: AtomicU64,
    pub effective_points: AtomicU64,
    pub outcomes: Mutex<BTreeMap<String, u64>>,
    pub max_ratio: Mutex<f64>,
}

impl Tally {
    pub fn new() -> Self {
        Tally { runs: AtomicU64::new(0), polls: AtomicU64::new(0), choice_points: AtomicU64::new(0), effective_points: AtomicU64::new(0), outcomes: Mutex::new(BTreeMap::new()), max_ratio: Mutex::new(0.0) }
    }
}

fn report(which: Which, sc: &Scenario, cfg: &W3Cfg, viols: &[(String, String)], stalls: &[(usize, u32)]) {
    for (sig, detail) in viols {
        let mut c = cfg.clone();
        c.stalls = stalls.to_vec();
        let sig = sig.clone();
        ctx().violation(
            sig,
            format!("{detail} [stations {:?} HSA={} G={} baud={} slot={} TTR={:?} divs={:?} phases={:?} loads={:?} late={:?} stalls={:?} clock origin={}us]", sc.addrs, sc.hsa, sc.gap, BAUDS[sc.baud].1, sc.slot_bits, sc.ttr, sc.divs, sc.phases, sc.loads, sc.late, stalls, sc.origin),
            json!({"world": "w3", "cfg": c.to_json()}),
            (sc.addrs.len() * 10 + stalls.len() * 100 + sc.late.len() * 5) as u64 + sc.hsa as u64,
        );
    }
}

/// Convergence time actually observed: first instant from which every later token pass is in order.
fn observed_convergence_ratio(run: &W3Run) -> f64 {
    let cfg = &run.cfg;
    let last_change = cfg.stations.iter().map(|s| s.join_us).max().unwrap_or(0);
    let mut online: Vec<u8> = cfg.stations.iter().map(|s| s.addr).collect();
    online.sort();
    let toks = tokens_in(run, 0, cfg.horizon_us);
    let mut last_bad = last_change;
    for w in toks.windows(2) {
        let (sa, da, t) = w[1];
        let ok = online.iter().position(|x| *x == sa).map(|k| online[(k + 1) % online.len()] == da).unwrap_or(false) && w[0].1 == sa;
        if !ok {
            last_bad = t;
        }
    }
    (last_bad - last_change) as f64 / (cfg.converge_by_us - last_change).max(1) as f64
}

/// Default schedule plus all placements of up to `k` poll stalls (deviation-bounded exploration).
pub fn explore_scenario(which: Which, sc: &Scenario, k: u8, tally: &Tally) {
    let cfg = Arc::new(sc.build());
    let mut base = W3Run::new(&cfg);
    explore_from(which, sc, &cfg, &mut base, k, tally, true);
}

fn explore_from(which: Which, sc: &Scenario, cfg: &Arc<W3Cfg>, run: &mut W3Run, budget: u8, tally: &Tally, is_default: bool) {
    while !run.done() {
        if budget > 0 {
            let snapshot = run.clone();
            let (i, effective) = run.step();
            tally.choice_points.fetch_add(1, Ordering::Relaxed);
            if effective && run.online[i] && !run.crashed[i] {
                tally.effective_points.fetch_add(1, Ordering::Relaxed);
                let mut fork = snapshot;
                fork.stall_next(i);
                explore_from(which, sc, cfg, &mut fork, budget - 1, tally, false);
            }
        } else {
            run.step();
        }
        if ctx().should_stop() {
            return;
        }
    }
    tally.runs.fetch_add(1, Ordering::Relaxed);
    tally.polls.fetch_add(run.polls, Ordering::Relaxed);
    let viols = judge(run, which);
    if viols.is_empty() {
        *tally.outcomes.lock().unwrap().entry(format!("ok.tokens>={}", (run.c01.tokens_seen / 50) * 50)).or_insert(0) += 1;
        if which == Which::C02 && is_default {
            let r = observed_convergence_ratio(run);
            let mut m = tally.max_ratio.lock().unwrap();
            if r > *m {
                *m = r;
            }
        }
    } else {
        *tally.outcomes.lock().unwrap().entry(viols[0].0.clone()).or_insert(0) += 1;
        report(which, sc, cfg, &viols, &run.stalls_used);
    }
    if run.c01.tokens_seen > 10 {
        ctx().witness("w3_token_circulated");
    }
}

fn critical(sc: &Scenario) -> bool {
    // adjacent addresses / wrap-around / HSA-1 with the slow poll grid, no late joiners
    sc.late.is_empty() && sc.divs == vec![4] && sc.baud == 1 && sc.slot_bits >= 300 && sc.slot_bits % 100 == 0 && sc.origin == 0 && sc.repoll == 0 && sc.endurance <= 1 && matches!(sc.loads[0], Load::None)
}

pub fn run_ring(which: Which, tier: Tier) -> ! {
    let scenarios = scenario_set(tier, which == Which::C01);
    let tally = Tally::new();
    let t0 = std::time::Instant::now();
    let budget_s = tier.pick(600.0, 14400.0);
    let skipped = AtomicU64::new(0);
    // k = 0 everywhere (quick) / k = 1 everywhere (thorough: on the critical ones k = 2 is too costly, k = 1 on all)
    scenarios.par_iter().for_each(|sc| {
        if t0.elapsed().as_secs_f64() > budget_s || ctx().should_stop() {
            skipped.fetch_add(1, Ordering::Relaxed);
            return;
        }
        let k = match tier {
            Tier::Quick => 0,
            Tier::Thorough => {
                if sc.late.is_empty() && sc.addrs.len() <= 3 && sc.baud == 1 && sc.gap == 1 && sc.hsa == 6 && (sc.phases == vec![0, 1, 2] || sc.phases == vec![0]) && matches!(sc.loads[0], Load::None) && sc.loads.len() == 1 && sc.ttr.is_none() && sc.divs != vec![16] && sc.divs != vec![8] && sc.divs.iter().all(|d| *d <= 16) && sc.slot_bits % 100 == 0 && sc.origin == 0 && sc.repoll == 0 && sc.endurance <= 1 {
                    1
                } else {
                    0
                }
            }
        };
        explore_scenario(which, sc, k, &tally);
    });
    // k = 1 on a few critical configurations in the quick tier as well
    let mut k1 = 0;
    if tier == Tier::Quick {
        let crit: Vec<&Scenario> = scenarios.iter().filter(|s| critical(s)).collect();
        let pick: Vec<&Scenario> = crit.iter().copied().collect();
        k1 = pick.len();
        pick.par_iter().for_each(|sc| explore_scenario(which, sc, 1, &tally));
    }
    // thorough: every placement of TWO poll stalls on a few two-station critical configurations
    let mut k2 = 0;
    if tier == Tier::Thorough {
        let pick: Vec<&Scenario> = scenarios.iter().filter(|s| critical(s) && s.ttr.is_none() && s.hsa == 6 && s.gap == 1 && (s.addrs == vec![1, 2] || s.addrs == vec![0, 5] || s.addrs == vec![4, 5]) && (s.phases == vec![0, 1, 2] || s.phases == vec![0])).collect();
        k2 = pick.len();
        pick.par_iter().for_each(|sc| {
            // fork at the first level in parallel: the sequential recursion would use one core per scenario
            let cfg = Arc::new(sc.build());
            let mut forks: Vec<W3Run> = vec![];
            let mut run = W3Run::new(&cfg);
            while !run.done() {
                let snapshot = run.clone();
                let (i, effective) = run.step();
                if effective && run.online[i] && !run.crashed[i] {
                    let mut f = snapshot;
                    f.stall_next(i);
                    forks.push(f);
                }
            }
            forks.into_par_iter().for_each(|mut f| explore_from(which, sc, &cfg, &mut f, 1, &tally, false));
        });
    }
    let mut ev = Evidence::default();
    ev.level = "model_checking";
    ev.states = tally.runs.load(Ordering::Relaxed);
    ev.transitions = tally.polls.load(Ordering::Relaxed);
    ev.traces_validated = ev.states;
    ev.evaluations = ev.states;
    ev.distinct_nontrivial = ev.states;
    ev.rule = "every (station set, HSA, gap factor, baud, slot time, poll-period pattern, phase pattern, load, join pattern) configuration once on the default schedule, plus every placement of one poll stall (Tslot/4) at every effective poll where a stall budget is given; states = distinct executions (configuration x schedule) run to the horizon on the real stations, transitions = polls executed; all executions are distinct by construction".into();
    ev.samples = scenarios.iter().step_by(scenarios.len() / 4 + 1).map(|s| json!(format!("{:?}", s))).collect();
    let sk = skipped.load(Ordering::Relaxed);
    ev.exhaustive = sk == 0;
    if sk > 0 {
        ev.caps_hit.push(format!("time budget {budget_s}s: {sk} of {} scenarios not run", scenarios.len()));
    }
    ev.bounds = json!({"scenarios": scenarios.len(), "stall_budget": tier.pick("0 everywhere, 1 on all critical configurations (19.2k, Tslot/4 pollers, slot >= 300, unloaded, no late joiner)", "1 on all <=3-station HSA-6 19.2k unloaded configurations with a slow poller, 0 elsewhere"), "critical_k1": k1, "two_stall_configurations": k2});
    let outcomes = tally.outcomes.lock().unwrap().clone();
    ev.distinct_outcomes = outcomes.len() as u64;
    ev.extra.insert("outcomes".into(), json!(outcomes));
    ev.extra.insert("choice_points".into(), json!(tally.choice_points.load(Ordering::Relaxed)));
    ev.extra.insert("effective_choice_points".into(), json!(tally.effective_points.load(Ordering::Relaxed)));
    ev.extra.insert("largest_observed_convergence_over_bound".into(), json!(*tally.max_ratio.lock().unwrap()));
    ev.required_witnesses = vec!["w3_token_circulated"];
    ev.assumptions.push("cold-start claim race and stale PHY buffers at set_online are excluded (DESIGN 5.3)".into());
    if which == Which::C02 {
        las_closure(&mut ev);
    }
    finish(ev)
}

// ------------------------------------------------------------------------------------------------
// C02(b): the LAS bookkeeping in isolation — complete closure of the reachable states

fn las_fp(r: &profirust::fdl::VerifTokenRing) -> String {
    format!("{:?}{:?}", r, r.verif_last_witnessed_sender())
}

pub fn las_closure(ev: &mut Evidence) {
    use profirust::fdl::VerifTokenRing as TR;
    let universe: [u8; 8] = [0, 1, 2, 3, 4, 5, 126, 200];
    let mut total_states = 0u64;
    let mut total_trans = 0u64;
    for ts in [0u8, 2, 5] {
        let params = ParametersFor(ts).get();
        let init = TR::new(&params);
        let mut seen: HashSet<String> = HashSet::new();
        let mut q: VecDeque<TR> = VecDeque::new();
        seen.insert(las_fp(&init));
        q.push_back(init.clone());
        let mut states: Vec<TR> = vec![];
        while let Some(s) = q.pop_front() {
            states.push(s.clone());
            let mut succ: Vec<(String, TR)> = vec![];
            for sa in universe {
                for da in universe {
                    let mut n = s.clone();
                    match catch(|| n.witness_token_pass(sa, da)) {
                        Ok(()) => {
                            if (sa > 125 || da > 125) && n != s {
                                ctx().violation("c02.las.invalid_address_changed_state", format!("TS={ts}: witness_token_pass({sa},{da}) changed {:?}", s), json!({"kind":"las","ts":ts,"state":las_fp(&s),"op":[sa,da]}), 1);
                            }
                            succ.push((format!("w{sa},{da}"), n));
                        }
                        Err(p) => {
                            ctx().violation("c02.las.panic", format!("TS={ts}: witness_token_pass({sa},{da}) in {:?}: {}", s, p.msg), json!({"kind":"las","ts":ts,"state":las_fp(&s),"op":[sa,da]}), 1);
                        }
                    }
                }
            }
            {
                let mut n = s.clone();
                n.claim_token();
                succ.push(("claim".into(), n));
            }
            for a in [0u8, 1, 2, 3, 4, 5] {
                if a != ts {
                    let mut n = s.clone();
                    if catch(|| n.set_next_station(a)).is_ok() {
                        succ.push((format!("setns{a}"), n));
                    }
                    let mut n = s.clone();
                    if catch(|| n.remove_station(a)).is_ok() {
                        succ.push((format!("rm{a}"), n));
                    }
                }
            }
            for (_, n) in succ {
                total_trans += 1;
                // invariant: NS / PS are the cyclic successor / predecessor of TS in LAS ∪ {TS}
                let mut las: Vec<u8> = n.iter_active_stations().collect();
                if !las.contains(&ts) {
                    las.push(ts);
                }
                las.sort();
                let k = las.iter().position(|x| *x == ts).unwrap();
                let ns = las[(k + 1) % las.len()];
                let ps = las[(k + las.len() - 1) % las.len()];
                if n.ready_for_ring() && (n.next_station() != ns || n.previous_station() != ps) {
                    ctx().violation("c02.las.neighbours_inconsistent", format!("TS={ts}: {:?} but LAS∪TS = {las:?}", n), json!({"kind":"las","ts":ts,"state":las_fp(&n)}), 1);
                }
                if seen.insert(las_fp(&n)) {
                    q.push_back(n);
                }
            }
            if seen.len() > 2_000_000 {
                machinery_failure("LAS state space did not close");
            }
        }
        total_states += states.len() as u64;
        // differential "from anywhere" oracle: three consistent rotations of any ring R containing TS
        let others: Vec<u8> = (0..6u8).filter(|a| *a != ts).collect();
        let mut rings: Vec<Vec<u8>> = vec![];
        for mask in 0..(1u32 << others.len()) {
            let mut r: Vec<u8> = others.iter().enumerate().filter(|(i, _)| mask & (1 << i) != 0).map(|(_, a)| *a).collect();
            r.push(ts);
            r.sort();
            rings.push(r);
        }
        let bad = AtomicU64::new(0);
        states.par_iter().for_each(|s| {
            for ring in &rings {
                if ring.len() < 2 {
                    continue;
                }
                let mut n = s.clone();
                for _rot in 0..3 {
                    for i in 0..ring.len() {
                        n.witness_token_pass(ring[i], ring[(i + 1) % ring.len()]);
                    }
                }
                let mut las: Vec<u8> = n.iter_active_stations().collect();
                if !las.contains(&ts) {
                    las.push(ts);
                }
                las.sort();
                let k = ring.iter().position(|x| *x == ts).unwrap();
                let ok = n.ready_for_ring() && las == *ring && n.next_station() == ring[(k + 1) % ring.len()] && n.previous_station() == ring[(k + ring.len() - 1) % ring.len()];
                if !ok && bad.fetch_add(1, Ordering::Relaxed) < 3 {
                    ctx().violation("c02.las.no_convergence_from_state", format!("TS={ts}: from {:?}, three rotations of {ring:?} end in {:?}", s, n), json!({"kind":"las","ts":ts,"state":las_fp(s),"ring":ring}), ring.len() as u64);
                }
            }
        });
        total_trans += (states.len() * rings.len()) as u64;
        // after only one rotation from the initial state the ring is not yet declared ready
        let mut n = TR::new(&params);
        let ring = [ts, (ts + 1) % 6, (ts + 3) % 6];
        let mut r = ring.to_vec();
        r.sort();
        for i in 0..r.len() {
            n.witness_token_pass(r[i], r[(i + 1) % r.len()]);
        }
        if n.ready_for_ring() {
            ctx().violation("c02.las.ready_after_one_rotation", format!("TS={ts}: ready after a single rotation of {r:?}"), json!({"kind":"las","ts":ts}), 1);
        }
    }
    // independent cross-check of the closure with stateright (BFS and DFS): unique state counts must agree
    {
        let mut sr_total = 0usize;
        for ts in [0u8, 2, 5] {
            let (b, d) = crate::xcheck::las_unique_states(ts);
            if b != d {
                machinery_failure(&format!("stateright BFS ({b}) and DFS ({d}) disagree on the LAS state count for TS={ts}"));
            }
            sr_total += b;
        }
        if sr_total as u64 != total_states {
            machinery_failure(&format!("explorer cross-check failed: in-house closure has {total_states} LAS states, stateright {sr_total}"));
        }
        ev.extra.insert("stateright_cross_check".into(), json!({"las_unique_states": sr_total, "agrees": true}));
    }
    ctx().witness_n("las_states", total_states);
    ev.extra.insert("las_closure_states".into(), json!(total_states));
    ev.extra.insert("las_closure_transitions".into(), json!(total_trans));
    ev.states += total_states;
    ev.transitions += total_trans;
    ev.required_witnesses.push("las_states");
}

struct ParametersFor(u8);
impl ParametersFor {
    fn get(&self) -> profirust::fdl::Parameters {
        profirust::fdl::ParametersBuilder::new(self.0, profirust::Baudrate::B19200).highest_station_address(6.max(self.0 + 1)).build()
    }
}

fn parse_fault(s: &str) -> Fault {
    if s == "Drop" { Fault::Drop } else if s == "Garble" { Fault::Garble } else if s.starts_with("Truncate") {
        Fault::Truncate(s.trim_end_matches(')').split('(').nth(1).unwrap().parse().unwrap())
    } else {
        let nums: Vec<usize> = s.split(|c: char| !c.is_ascii_digit()).filter(|x| !x.is_empty()).map(|x| x.parse().unwrap()).collect();
        Fault::Flip { byte: nums[0], bit: nums[1] as u8 }
    }
}

/// Re-execute one C06 job and print the bus trace from shortly before the disturbance.
pub fn replay_c06(r: &Value) {
    let sc = Scenario::from_json(&r["scenario"]);
    let job = &r["job"];
    println!("scenario: {}\ndisturbance: {}", r["scenario"], r["disturbance"]);
    let mut cfg = sc.build();
    if job["kind"] == "race" {
        let slot_us = cfg.slot_us();
        let d = 2 * (sc.addrs[1] as i64 - sc.addrs[0] as i64) * slot_us;
        cfg.stations[0].join_us = d + job["off_q"].as_i64().unwrap() * (33 * slot_us / cfg.slot_bits as i64) / 2;
        cfg.stations[1].join_us = 0;
    }
    let cfg = Arc::new(cfg);
    let mut run = W3Run::new(&cfg);
    let tally = Tally::new();
    let t_fault;
    if job["kind"] == "race" {
        let slot_us = cfg.slot_us();
        let d = 2 * (sc.addrs[1] as i64 - sc.addrs[0] as i64) * slot_us;
        while run.now < d + 20 * slot_us && run.panic.is_none() { run.step(); }
        t_fault = run.now;
    } else {
        while run.now < cfg.converge_by_us && run.panic.is_none() { run.step(); }
        let first_tx = run.bus.tx_count;
        match job["kind"].as_str().unwrap() {
            "fault" => {
                let n = first_tx + job["n_rel"].as_u64().unwrap() as usize;
                run.bus.faults.push((n, parse_fault(job["fault"].as_str().unwrap())));
                while run.bus.tx_count <= n && !run.done() { run.step(); }
            }
            "fault2" => {
                let n = first_tx + job["n_rel"].as_u64().unwrap() as usize;
                let d = job["d"].as_u64().unwrap() as usize;
                run.bus.faults.push((n, parse_fault(job["fault"].as_str().unwrap())));
                run.bus.faults.push((n + d, parse_fault(job["fault2"].as_str().unwrap())));
                while run.bus.tx_count <= n + d && !run.done() { run.step(); }
            }
            "crash+fault" => {
                let t = job["t_us"].as_i64().unwrap();
                let i = job["station"].as_u64().unwrap() as usize;
                loop {
                    let (pi, pt) = run.peek();
                    if pt >= t && pi == i { break; }
                    run.step();
                }
                run.crashed[i] = true;
                let n = run.bus.tx_count + job["d"].as_u64().unwrap() as usize;
                run.bus.faults.push((n, parse_fault(job["fault2"].as_str().unwrap())));
                while run.bus.tx_count <= n && !run.done() && run.now < t + 10_000_000 { run.step(); }
            }
            "cut" => {
                let k = job["k"].as_u64().unwrap() as usize;
                let m = job["m"].as_u64().unwrap() as usize;
                for j in 0..m { run.bus.faults.push((first_tx + k + j, Fault::Drop)); }
                while run.bus.tx_count <= first_tx + k + m - 1 && !run.done() { run.step(); }
            }
            "garble" => {
                let k = job["k"].as_u64().unwrap() as usize;
                for j in 0..3 { run.bus.faults.push((first_tx + k + j, Fault::Garble)); }
                while run.bus.tx_count <= first_tx + k + 2 && !run.done() { run.step(); }
            }
            "soft_restart" => {
                let t = job["t_us"].as_i64().unwrap();
                let i = job["station"].as_u64().unwrap() as usize;
                loop {
                    let (pi, pt) = run.peek();
                    if pt >= t && pi == i { break; }
                    run.step();
                }
                run.stations[i].set_offline();
                run.soft_restart[i] = true;
                run.crashed[i] = true;
                let d = job["d_slots"].as_i64().unwrap() * sc.slot_bits as i64 * 1_000_000 / BAUDS[sc.baud].1 as i64;
                run.restart_at[i] = Some(t + d);
            }
            _ => {
                let t = job["t_us"].as_i64().unwrap();
                let i = job["station"].as_u64().unwrap() as usize;
                let variant = job["variant"].as_u64().unwrap();
                // walk to the poll of station i at time t
                loop {
                    let (pi, pt) = run.peek();
                    if pt >= t && pi == i { break; }
                    run.step();
                }
                if variant % 2 == 1 {
                    let before_tx = run.bus.tx_count;
                    run.step();
                    let mut cut = run.now;
                    if let (Some(first_only), true) = (job["partial"].as_bool(), run.bus.tx_count > before_tx) {
                        let len = run.bus.trace.last().map(|t| t.bytes.len()).unwrap_or(1) as i64;
                        let keep = if first_only { 1 } else { (len - 1).max(1) };
                        cut = run.now + run.bus.bits_us_floor(11 * keep) + 1;
                    }
                    run.bus.abort_tx(i as u8, cut);
                }
                run.crashed[i] = true;
                if variant >= 2 {
                    let d = if variant == 2 { 2 } else { 40 } * sc.slot_bits as i64 * 1_000_000 / BAUDS[sc.baud].1 as i64;
                    run.restart_at[i] = Some(t + d);
                }
            }
        }
        t_fault = run.restart_at.iter().flatten().copied().max().unwrap_or(run.now);
    }
    let mark = run.log.len().saturating_sub(12);
    c06_finish(&mut run, &sc, t_fault, "replay", &tally, job.clone());
    let rate = run.bus.rate;
    for (a, f, s, e) in run.log.iter().skip(mark).take(300) {
        println!("{:>10} us .. {:>10} us  #{:<3} {}", s / rate, e / rate, a, f.as_ref().map(|f| f.short()).unwrap_or("??".into()));
    }
    println!("outcome: {:?}", tally.outcomes.lock().unwrap());
    for i in 0..sc.addrs.len() { println!("station #{}: {:?}", sc.addrs[i], run.view(i)); }
}

pub fn replay(v: &Value) {
    if v["replay"]["world"] == "w3-forged" {
        replay_forged(&v["replay"]);
        return;
    }
    if v["replay"]["world"] == "w3-fault" {
        replay_c06(&v["replay"]);
        return;
    }
    if v["replay"]["kind"] == "las" {
        println!("LAS counterexample: {}", v["replay"]);
        return;
    }
    crate::w3::replay(v);
}

#[allow(dead_code)]
fn unused(_: Fault) {}

// ------------------------------------------------------------------------------------------------
// C13 — token hold time and bounded rotation

/// Evaluate the hold-time / rotation oracle on a finished run (from the convergence point on).
pub fn c13_check(run: &W3Run, sc: &Scenario) -> Result<(), (String, String)> {
    let cfg = &run.cfg;
    let rate = run.bus.rate;
    let bit = crate::bus::BIT;
    let n = cfg.stations.len() as i64;
    let ttr_bits = sc.ttr.unwrap_or(cfg.hsa as u32 * 5000) as i64;
    let ttr = ttr_bits * bit;
    let slot = cfg.slot_bits as i64 * bit;
    let pmax = sc.divs.iter().map(|d| slot / *d).max().unwrap();
    // every poll stall of the schedule (Tslot/4 without polls) may delay what the station notices by that much
    let stall_margin = (run.stalls_used.len().max(1) as i64) * slot / 4;
    let from = run.samples.first().map(|s| s.0).unwrap_or(cfg.converge_by_us) * rate;
    // longest message cycle of the alphabet: SRD request (4 data bytes: 13 bytes = 143 bit) + slot time, or SDN
    let c_max = 150 * bit + slot + 33 * bit + 2 * pmax;
    let g_max = 66 * bit + slot + 66 * bit + 6 * pmax;
    let pass = 33 * bit + 33 * bit + 3 * pmax;
    let bound = ttr + n * (c_max + g_max + pass);
    for (i, st) in cfg.stations.iter().enumerate() {
        let a = st.addr;
        // token receipts of station a: end of a token telegram X -> a (X != a), scaled time
        let mut receipts: Vec<i64> = vec![];
        let mut visits: Vec<(i64, Vec<(i64, bool)>)> = vec![]; // (receipt, requests (start, is_gap_poll))
        // a repeated pass (the passer saw no reaction and sends the token again) is not a new receipt: it is
        // recognised by the addressee not having transmitted anything since the previous pass to it — not by
        // a time threshold (at 12 Mbit/s a whole rotation is shorter than half a slot time)
        let mut spoke_since_receipt = true;
        for (sa, f, s, e) in &run.log {
            if *sa == a && !matches!(f, Some(crate::refcodec::RFrame::Token { da, sa: tsa }) if *da == a && *tsa == a && n == 1) {
                spoke_since_receipt = true;
            }
            match f {
                // (a station that is alone in the ring passes the token to itself: that is its receipt)
                Some(crate::refcodec::RFrame::Token { da, sa: tsa }) if *da == a && (*tsa != a || n == 1) => {
                    // (a lone station's passes to itself are never repeats)
                    if n == 1 || spoke_since_receipt {
                        receipts.push(*e);
                        visits.push((*e, vec![]));
                    }
                    spoke_since_receipt = false;
                }
                Some(fr) if *sa == a && fr.is_request() => {
                    if let Some(v) = visits.last_mut() {
                        v.1.push((*s, fr.is_fdl_status_req()));
                    }
                }
                _ => {}
            }
        }
        for w in visits.windows(2) {
            let (r_prev, _) = &w[0];
            let (r_cur, reqs) = &w[1];
            if *r_cur < from {
                continue;
            }
            // rule 2: rotation bound
            if r_cur - r_prev > bound {
                return Err(("c13.rotation_exceeds_bound".into(), format!("#{a}: {} bit times between token receipts at t={}us (bound: TTR {} + N*(cycle+gap+pass) = {} bits)", (r_cur - r_prev) / bit, r_cur / rate, ttr_bits, bound / bit)));
            }
            // rule 1: application requests that start after previous receipt + P + TTR: at most one
            let deadline = r_prev + ttr + 2 * pmax + (run.stalls_used.len().saturating_sub(1) as i64) * slot / 4;
            let late: Vec<i64> = reqs.iter().filter(|(s, gap)| !*gap && *s > deadline).map(|x| x.0).collect();
            if late.len() > 1 {
                return Err(("c13.message_cycles_after_hold_time".into(), format!("#{a}: {} application requests started after the hold time was over (visit at t={}us, previous receipt {}us, TTR {} bits)", late.len(), r_cur / rate, r_prev / rate, ttr_bits)));
            }
        }
        // rule 5: the previous token receipt cannot be later than the current one, so whatever the station
        // takes for its "previous receipt" (there is none at its first visit, or after a claim), at most
        // one application request may start later than TTR after the token telegram that gave it the
        // token — from the very first telegram of the run, not only in the stable phase
        {
            let mut last_receipt: Option<i64> = None;
            let mut late = 0u32;
            for (sa, f, s, e) in &run.log {
                match f {
                    Some(crate::refcodec::RFrame::Token { da, .. }) if *da == a => {
                        last_receipt = Some(*e);
                        late = 0;
                    }
                    Some(fr) if *sa == a && fr.is_request() && !fr.is_fdl_status_req() => {
                        if let Some(r) = last_receipt {
                            if *s > r + ttr + 2 * pmax + stall_margin {
                                late += 1;
                                if late > 1 {
                                    return Err(("c13.message_cycles_after_hold_time.since_this_receipt".into(), format!("#{a}: application request at t={}us, {} bit times after the token telegram that gave it the token (t={}us); TTR is {} bits", s / rate, (s - r) / bit, r / rate, ttr_bits)));
                                }
                            }
                        }
                    }
                    _ => {}
                }
            }
        }
        // rule 4: ordinary (low-priority) traffic is not starved either: in a visit without a GAP poll (no
        // time is reserved for one) whose token came back well within the target rotation time, the
        // application is offered an ordinary message cycle
        if !matches!(st.load, Load::None) {
            let calls: Vec<i64> = run.apps[i].normal_calls.iter().map(|t| (t - cfg.origin_us) * rate).collect();
            for w in visits.windows(3) {
                let (r_prev, reqs_prev) = &w[0];
                let (r_cur, reqs) = &w[1];
                let (r_next, _) = &w[2];
                if *r_cur < from || calls.first().map(|c| *c > *r_cur).unwrap_or(true) {
                    continue;
                }
                // (the visit in which a sweep finds the end of the GAP still carries the reserve although no
                // poll is sent any more: only visits whose predecessor had no poll either are judged)
                let has_gap_poll = reqs.iter().any(|(_, gap)| *gap) || reqs_prev.iter().any(|(_, gap)| *gap);
                // margin: the station measures from the START of the previous token telegram, asks the application
                // only after the 33-bit pause, on its poll grid, and a poll may be stalled by Tslot/4
                if !has_gap_poll && r_cur - r_prev + 2 * pmax + stall_margin + 120 * bit < ttr {
                    let offered = calls.iter().any(|c| *c >= *r_cur - pmax && *c < *r_next);
                    if !offered {
                        return Err(("c13.ordinary_traffic_starved".into(), format!("#{a}: token back after {} bit times (TTR {} bits), no GAP poll in the visit at t={}us, but the application was not offered an ordinary message cycle", (r_cur - r_prev) / bit, ttr_bits, r_cur / rate)));
                    }
                    ctx().witness("c13_ordinary_cycle_offered_in_early_visit");
                }
            }
        }
        // rule 3: no starvation — the application is asked at least once per visit
        let nvis = visits.len() as u64;
        // (slack: the visit that is still running at the horizon, a visit cut short by the convergence mark;
        // for a lone station also the two claim tokens, which are not visits)
        let slack = if n == 1 { 4 } else { 2 };
        if nvis >= 4 && run.apps[i].calls + slack < nvis {
            return Err(("c13.application_starved".into(), format!("#{a}: {} token visits but the application was asked only {} times", nvis, run.apps[i].calls)));
        }
        if nvis < 3 && run.panic.is_none() {
            return Err(("c13.station_starved".into(), format!("#{a} received the token only {nvis} times")));
        }
        if !matches!(st.load, Load::None) && run.apps[i].sent > 0 {
            ctx().witness("c13_traffic_sent");
        }
    }
    Ok(())
}

pub fn run_c13(tier: Tier) -> ! {
    let mut scenarios = vec![];
    let sets: Vec<Vec<u8>> = vec![vec![1, 2], vec![0, 5], vec![2, 4, 5], vec![0, 1, 5], vec![0, 2, 3, 5], vec![1, 3, 4], vec![2], vec![0], vec![5]];
    let loads: Vec<Vec<Load>> = vec![
        vec![Load::SdnAlways],
        vec![Load::SrdAlways(40)],
        vec![Load::SrdAlways(41)],
        vec![Load::SrdAlways(42)],
        vec![Load::SrdEvery3(40), Load::SdnAlways],
        vec![Load::SdnAlways, Load::None],
        vec![Load::None, Load::SrdAlways(42), Load::SdnAlways],
        vec![Load::SdnLowOnly],
    ];
    for addrs in &sets {
        for load in &loads {
            for ttr in [Some(256u32), Some(400), Some(2000), None] {
                // 400 bit: only for the lone stations (one GAP poll alone exceeds it: every visit is late)
                if ttr == Some(400) && addrs.len() > 1 {
                    continue;
                }
                for divs in [vec![16i64], vec![8], vec![16, 8]] {
                    for slot_bits in [100u16, 300] {
                        // equal poll phases (all stations polled at the same instants): thorough everywhere,
                        // quick on the TTR-256 configurations
                        for phases in [vec![0i64, 1, 2], vec![0]] {
                            if phases.len() == 1 && (addrs.len() == 1 || (tier == Tier::Quick && ttr != Some(256))) {
                                continue;
                            }
                            let mut sc = Scenario { addrs: addrs.clone(), hsa: 6, gap: 1, baud: 1, slot_bits, ttr, divs: divs.clone(), phases, deaf: false, loads: load.clone(), late: vec![], responders: vec![(40, 11), (41, slot_bits as u32 - 33), (42, 0)], origin: 0, repoll: 0, endurance: 1 };
                            if !sc.inside_envelope() {
                                continue;
                            }
                            sc.gap = if ttr == Some(2000) { 2 } else { 1 };
                            scenarios.push(sc);
                        }
                    }
                }
            }
        }
    }
    // clock origins (see origin_variants)
    {
        let base: Vec<Scenario> = scenarios
            .iter()
            .filter(|sc| sc.slot_bits == 100 && sc.phases.len() == 3 && sc.divs == vec![16] && (tier == Tier::Thorough || (matches!(sc.ttr, Some(256) | Some(2000)) && matches!(sc.addrs.as_slice(), [1, 2] | [2, 4, 5] | [2]))))
            .cloned()
            .collect();
        for sc in base {
            scenarios.extend(origin_variants(&sc));
            let mut r = sc.clone();
            r.repoll = 2;
            scenarios.push(r);
            // other baud rates (9600 baud, 1.5 and 12 Mbit/s) at the minimum slot time of the rate
            for baud in [0usize, 3, 4] {
                let mut b = sc.clone();
                b.baud = baud;
                b.slot_bits = b.slot_bits.max(crate::w2::MIN_SLOT[baud]);
                b.responders = vec![(40, 11), (41, b.slot_bits as u32 - 33), (42, 0)];
                if b.inside_envelope() {
                    scenarios.push(b);
                }
            }
        }
    }
    // endurance (some 10^5 token visits with busy applications)
    for (addrs, ttr, load) in [(vec![2u8], Some(256u32), vec![Load::SdnAlways]), (vec![1, 2], Some(2000), vec![Load::SrdAlways(40), Load::SdnAlways])] {
        scenarios.push(Scenario { addrs, hsa: 6, gap: 1, baud: 1, slot_bits: 100, ttr, divs: vec![16], phases: vec![0, 1, 2], deaf: false, loads: load, late: vec![], responders: vec![(40, 11), (41, 67), (42, 0)], origin: 0, repoll: 0, endurance: tier.pick(6_000, 20_000) });
    }
    let tally = Tally::new();
    scenarios.par_iter().for_each(|sc| {
        let mut cfg = sc.build();
        // traffic slows ring formation and rotations down: every token hold may last TTR
        let bit_us = cfg.bit_us_f();
        let ttr_us = (sc.ttr.unwrap_or(sc.hsa as u32 * 5000) as f64 * bit_us) as i64;
        let n = sc.addrs.len() as i64;
        cfg.converge_by_us += (sc.hsa as i64 + 8) * n * ttr_us;
        cfg.horizon_us = cfg.converge_by_us + 8 * (ttr_us + n * (3 * cfg.slot_us())) * sc.endurance.max(1) as i64;
        let cfg = Arc::new(cfg);
        // quick: one poll stall at every effective poll on the explicit-TTR configurations of up to three stations
        // configurations with the fine poll grid; thorough: on every configuration
        let quick_k1 = sc.addrs.len() <= 3 && sc.ttr != None && sc.divs == vec![16] && sc.origin == 0 && sc.repoll == 0 && sc.endurance <= 1 && sc.baud == 1;
        // (thorough: every explicit-TTR configuration except the Tslot/8-only grid)
        let thorough_k1 = tier == Tier::Thorough && sc.divs != vec![8] && sc.ttr.is_some() && sc.endurance <= 1 && sc.baud == 1;
        // thorough: every placement of TWO poll stalls on the lone stations and the two-station rings with the
        // builder-minimum TTR on the fine poll grid (slot time 100)
        let thorough_k2 = tier == Tier::Thorough && sc.addrs.len() <= 2 && sc.ttr == Some(256) && sc.divs == vec![16] && sc.slot_bits == 100 && sc.phases.len() == 3 && sc.origin == 0 && sc.repoll == 0 && sc.endurance <= 1 && sc.baud == 1 && !matches!(sc.loads[0], Load::SdnLowOnly);
        let k = if thorough_k2 { 2u8 } else if thorough_k1 || quick_k1 { 1u8 } else { 0 };
        let mut base = W3Run::new(&cfg);
        c13_explore(sc, &cfg, &mut base, k, &tally);
    });
    let mut ev = Evidence::default();
    ev.level = "model_checking";
    ev.states = tally.runs.load(Ordering::Relaxed);
    ev.transitions = tally.polls.load(Ordering::Relaxed);
    ev.traces_validated = ev.states;
    ev.evaluations = ev.states;
    ev.distinct_nontrivial = ev.states;
    ev.rule = "every (station set, application load pattern, TTR, poll pattern, slot time) configuration inside the latency envelope on the default schedule (thorough: plus every placement of one poll stall at every effective poll); passive responders answer after 11 bit, after Tslot-33 bit, or never; oracle on the bus trace: message cycles after the hold time, rotation bound, starvation".into();
    ev.samples = scenarios.iter().step_by(scenarios.len() / 3 + 1).map(|s| json!(format!("{:?}", s))).collect();
    ev.exhaustive = true;
    ev.bounds = json!({"scenarios": scenarios.len(), "stall_budget": tier.pick("1 on the <=3-station explicit-TTR Tslot/16 configurations, 0 elsewhere", "2 on the lone stations and two-station rings with TTR 256 at Tslot/16, 1 on every other explicit-TTR configuration except the Tslot/8-only grid, 0 with the default TTR")});
    let outcomes = tally.outcomes.lock().unwrap().clone();
    ev.distinct_outcomes = outcomes.len() as u64;
    ev.extra.insert("outcomes".into(), json!(outcomes));
    ev.required_witnesses = vec!["c13_traffic_sent", "w3_token_circulated"];
    finish(ev)
}

fn c13_explore(sc: &Scenario, cfg: &Arc<W3Cfg>, run: &mut W3Run, budget: u8, tally: &Tally) {
    while !run.done() {
        if budget > 0 && run.now >= cfg.converge_by_us {
            let snapshot = run.clone();
            let (i, effective) = run.step();
            if effective {
                let mut fork = snapshot;
                fork.stall_next(i);
                c13_explore(sc, cfg, &mut fork, budget - 1, tally);
            }
        } else {
            run.step();
        }
    }
    tally.runs.fetch_add(1, Ordering::Relaxed);
    tally.polls.fetch_add(run.polls, Ordering::Relaxed);
    if run.c01.tokens_seen > 10 {
        ctx().witness("w3_token_circulated");
    }
    let stable = {
        // C13 speaks about a stable ring: all stations in the ring with a complete LAS at the end
        let online: Vec<u8> = { let mut v = sc.addrs.clone(); v.sort(); v };
        (0..sc.addrs.len()).all(|i| { let v = run.view(i); let mut las = v.las.clone(); if !las.contains(&sc.addrs[i]) { las.push(sc.addrs[i]); } las.sort(); v.in_ring && las == online })
    };
    if !stable && run.panic.is_none() {
        *tally.outcomes.lock().unwrap().entry("skipped: ring not stable within the horizon".into()).or_insert(0) += 1;
        return;
    }
    let res = if let Some(p) = &run.panic { Err((format!("c13.run_ended_by_panic.{}", p.split(' ').next().unwrap_or("")), p.clone())) } else { c13_check(run, sc) };
    match res {
        Ok(()) => {
            *tally.outcomes.lock().unwrap().entry("ok".into()).or_insert(0) += 1;
        }
        Err((sig, detail)) => {
            *tally.outcomes.lock().unwrap().entry(sig.clone()).or_insert(0) += 1;
            let mut c = (**cfg).clone();
            c.stalls = run.stalls_used.clone();
            ctx().violation(sig, format!("{detail} [stations {:?} loads {:?} TTR {:?} slot {} divs {:?} stalls {:?} clock origin {}us]", sc.addrs, sc.loads, sc.ttr, sc.slot_bits, sc.divs, run.stalls_used, sc.origin), json!({"world":"w3","cfg": c.to_json()}), (sc.addrs.len() * 10 + run.stalls_used.len() * 50) as u64);
        }
    }
}

// ------------------------------------------------------------------------------------------------
// C06 — recovery from lost stations, lost tokens and corrupted traffic

fn t_rec_us(sc: &Scenario) -> (i64, i64) {
    let n = sc.addrs.len();
    let a_max = *sc.addrs.iter().max().unwrap();
    let max_p = sc.divs.iter().map(|d| sc.slot_bits as f64 / *d as f64).fold(0.0, f64::max);
    let (t_conv, stab, _r) = bounds_us(n, a_max, sc.hsa, sc.gap, sc.slot_bits, max_p, sc.baud);
    let bit_us = 1_000_000.0 / BAUDS[sc.baud].1 as f64;
    (t_conv + (9.0 * sc.slot_bits as f64 * bit_us) as i64, stab)
}

/// After the last disturbance at `t_fault`, continue for T_rec + stability window and judge.
fn c06_finish(run: &mut W3Run, sc: &Scenario, t_fault: i64, what: &str, tally: &Tally, job: Value) {
    let (t_rec, stab) = t_rec_us(sc);
    run.horizon_us = t_fault + t_rec + stab;
    run.samples.clear();
    run.next_sample = t_fault + t_rec;
    let log_mark = run.log.len();
    while !run.done() {
        run.step();
    }
    tally.runs.fetch_add(1, Ordering::Relaxed);
    tally.polls.fetch_add(run.polls, Ordering::Relaxed);
    let rate = run.bus.rate;
    let res: Result<(), (String, String)> = if let Some(p) = &run.panic {
        Err((format!("c06.run_ended_by_panic.{}", p.split(' ').next().unwrap_or("")), p.clone()))
    } else {
        // the ring predicate of C02 for the stations that are online and alive
        c02_check(run).map_err(|(s, d)| (s.replace("c02.", "c06.not_recovered."), d)).and_then(|_| {
            // never silent for longer than the largest silence time-out plus a full GAP scan
            let a_max = *sc.addrs.iter().max().unwrap() as i64;
            let slot = sc.slot_bits as i64 * crate::bus::BIT;
            let limit = (6 + 2 * a_max) * slot + sc.hsa as i64 * (99 * crate::bus::BIT + slot) + 8 * slot;
            let mut prev_end: Option<i64> = None;
            for (_, _, s, e) in &run.log[log_mark.saturating_sub(1)..] {
                if let Some(pe) = prev_end {
                    if s - pe > limit {
                        return Err(("c06.bus_silent_too_long".into(), format!("bus silent for {} bit times at t={}us", (s - pe) / crate::bus::BIT, s / rate)));
                    }
                }
                prev_end = Some(prev_end.map(|p| p.max(*e)).unwrap_or(*e));
            }
            Ok(())
        })
    };
    match res {
        Ok(()) => {
            ctx().witness("c06_recovered");
            *tally.outcomes.lock().unwrap().entry(format!("recovered after {}", what.split(' ').next().unwrap_or(""))).or_insert(0) += 1;
        }
        Err((sig, detail)) => {
            *tally.outcomes.lock().unwrap().entry(format!("{sig} [{} / {} / {} phases]", what.split(' ').next().unwrap_or(""), if sc.deaf { "deaf PHY" } else { "hearing PHY" }, if sc.phases.iter().all(|p| *p == sc.phases[0]) { "equal" } else { "staggered" })).or_insert(0) += 1;
            let tail: Vec<String> = run.log.iter().rev().take(10).rev().map(|(a, f, s, _)| format!("{}us #{} {}", s / rate, a, f.as_ref().map(|f| f.short()).unwrap_or("??".into()))).collect();
            let views: Vec<String> = (0..sc.addrs.len()).map(|i| format!("#{}:{:?}", sc.addrs[i], run.view(i))).collect();
            // the signature names the kind of disturbance, the PHY model and the kind of poll schedule …
            let kind = job["kind"].as_str().unwrap_or("x").replace('+', "_then_");
            let mut sig = format!("{sig}.after_{kind}.{}.{}", if sc.deaf { "deaf_phy" } else { "hearing_phy" }, if sc.phases.iter().all(|p| *p == sc.phases[0]) { "equal_phases" } else { "staggered_phases" });
            // … except for one END STATE that is recognised whatever led to it: under the PHY that is deaf while
            // it transmits, two stations transmit aligned to within one character time at the end (recorded
            // finding F22: they can never notice each other)
            // The signature of that end state names the DISTURBANCE KIND and the poll grid that led to it (kind of
            // disturbance, slot time, poll divisors), so that the same end state
            // reached from anywhere else — e.g. through a regression of the F19/F20/F21 repairs, whose symptom
            // under this PHY is the very same end state — is a new violation and not a known finding.
            if sc.deaf {
                let last: Vec<(u8, i64)> = run.log.iter().rev().take(16).map(|(a, _, s, _)| (*a, *s)).collect();
                let aligned = last.windows(2).filter(|w| w[0].0 != w[1].0 && (w[0].1 - w[1].1).abs() < 11 * crate::bus::BIT).count();
                if aligned >= 4 {
let dv: Vec<String> = sc.divs.iter().map(|a| a.to_string()).collect();
                    sig = if kind == "cut" {
                        // a bus cut makes every station claim a token of its own: whatever the poll grid
                        "c06.not_recovered.aligned_token_holders.deaf_phy.after_cut".to_string()
                    } else {
                        format!("c06.not_recovered.aligned_token_holders.deaf_phy.after_{kind}.slot{}.div_{}", sc.slot_bits, dv.join("_"))
                    };
                }
            }
            ctx().violation(
                sig,
                format!("{detail} [after {what}; stations {:?} HSA {} slot {} divs {:?} phases {:?} PHY {}; now={}us horizon={}us; last telegrams: {:?}; views: {:?}]", sc.addrs, sc.hsa, sc.slot_bits, sc.divs, sc.phases, if sc.deaf { "deaf while transmitting" } else { "hears collisions" }, run.now, run.horizon_us, tail, views),
                json!({"world":"w3-fault","scenario": sc.to_json(), "disturbance": what, "job": job}),
                (sc.addrs.len() * 10) as u64,
            );
        }
    }
}

pub fn run_c06(tier: Tier) -> ! {
    let mut scenarios = vec![];
    // (stations, HSA, gap factor)
    let mut sets: Vec<(Vec<u8>, u8, u8)> = vec![(vec![1, 2], 6, 1), (vec![0, 5], 6, 1), (vec![2, 4, 5], 6, 1), (vec![0, 3, 5], 6, 1), (vec![0, 1, 5], 6, 1), (vec![1, 3, 4], 6, 1), (vec![0, 2, 3, 5], 6, 1)];
    if tier == Tier::Thorough {
        sets.extend([(vec![0, 1, 2, 3], 6, 1), (vec![3, 4, 5], 6, 1), (vec![1, 6], 8, 1), (vec![0, 2, 7], 8, 2), (vec![1, 2, 4], 5, 2)]);
        // (rings over the whole address space — {0,125} and {63,64} with HSA 126 — were run by hand through
        // PBMC_C06_EXPERIMENT: 1.6·10^5 + 0.9·10^5 episodes, all recover; as a standing part of this tier their
        // fault windows of HSA+3 rotations cost 30 GB of snapshots)
    }
    // poll schedules: periods (Tslot/div per station, cyclic) and phases (thirds of the period,
    // cyclic). Equal phases = stations polled at the very same instants (found F19).
    let schedules: Vec<(Vec<i64>, Vec<i64>)> = tier.pick(
        vec![(vec![16], vec![0, 1, 2]), (vec![16], vec![0, 0, 0])],
        vec![(vec![16], vec![0, 1, 2]), (vec![16], vec![0, 0, 0]), (vec![8], vec![0, 1, 2]), (vec![8], vec![0, 0, 0]), (vec![16, 8], vec![0, 0, 0]), (vec![4], vec![2, 0, 1]), (vec![16, 4], vec![0, 1, 0])],
    );
    for (addrs, hsa, gap) in &sets {
        for (divs, phases) in &schedules {
            for load in [Load::None, Load::SdnAlways] {
                if tier == Tier::Quick && phases[1] == 0 && load == Load::None && addrs.len() == 2 {
                    continue;
                }
                // both PHY models: a transmitting station hears colliding bytes corrupted / does not hear them
                // at all (receiver off while the driver is on — the usual RS-485 wiring)
                for deaf in [false, true] {
                    if tier == Tier::Quick && deaf && load != Load::None && addrs.len() > 3 {
                        continue;
                    }
                    scenarios.push(Scenario { addrs: addrs.clone(), hsa: *hsa, gap: *gap, baud: 1, slot_bits: 300, ttr: if load == Load::None { None } else { Some(1500) }, divs: divs.clone(), phases: phases.clone(), deaf, loads: vec![load], late: vec![], responders: vec![], origin: 0, repoll: 0, endurance: 1 });
                }
            }
        }
    }
    // other baud rates (9600 baud, 1.5 and 12 Mbit/s; thorough: also 500 kbit/s and 93.75 kbit/s) at the minimum
    // slot time of the rate, clock origins below zero and near 2^32 us, polls repeated at the same instant
    {
        let rings: Vec<Vec<u8>> = tier.pick(vec![vec![1, 2], vec![0, 3, 5]], vec![vec![1, 2], vec![0, 3, 5], vec![0, 5], vec![1, 3, 4]]);
        for addrs in rings {
            for phases in [vec![0i64, 1, 2], vec![0, 0, 0]] {
                for deaf in [false, true] {
                    for baud in tier.pick(vec![0usize, 3, 4], vec![0, 3, 4, 2, 7]) {
                        scenarios.push(Scenario { addrs: addrs.clone(), hsa: 6, gap: 1, baud, slot_bits: crate::w2::MIN_SLOT[baud], ttr: None, divs: vec![16], phases: phases.clone(), deaf, loads: vec![Load::None], late: vec![], responders: vec![], origin: 0, repoll: 0, endurance: 1 });
                    }
                    for origin in [-3_600_000_000i64, (1i64 << 32) - 2_000_000] {
                        scenarios.push(Scenario { addrs: addrs.clone(), hsa: 6, gap: 1, baud: 1, slot_bits: 300, ttr: None, divs: vec![16], phases: phases.clone(), deaf, loads: vec![Load::None], late: vec![], responders: vec![], origin, repoll: 0, endurance: 1 });
                    }
                    scenarios.push(Scenario { addrs: addrs.clone(), hsa: 6, gap: 1, baud: 1, slot_bits: 300, ttr: None, divs: vec![16], phases: phases.clone(), deaf, loads: vec![Load::None], late: vec![], responders: vec![], origin: 0, repoll: 2, endurance: 1 });
                }
            }
        }
    }
    if tier == Tier::Thorough {
        // short slot time and a fine poll grid (Tslot/52 = 100 µs at 19.2 kbit/s), HSA 10
        for deaf in [false, true] {
            for phases in [vec![0i64, 0, 0], vec![0, 1, 2]] {
                for gap in [1u8, 2] {
                    scenarios.push(Scenario { addrs: vec![0, 3, 7], hsa: 10, gap, baud: 1, slot_bits: 100, ttr: None, divs: vec![52], phases: phases.clone(), deaf, loads: vec![Load::None], late: vec![], responders: vec![], origin: 0, repoll: 0, endurance: 1 });
                }
            }
        }
    }
    if let Ok(x) = std::env::var("PBMC_C06_EXPERIMENT") {
        // (development aid) only the scenarios of an experiment: "addrs;hsa;slot;div;gap;deaf;s|e;baud index"
        let f: Vec<&str> = x.split(';').collect();
        let addrs: Vec<u8> = f[0].split(',').map(|a| a.parse().unwrap()).collect();
        scenarios = vec![Scenario { addrs, hsa: f[1].parse().unwrap(), gap: f.get(4).map(|g| g.parse().unwrap()).unwrap_or(1), baud: f.get(7).map(|g| g.parse().unwrap()).unwrap_or(1), slot_bits: f[2].parse().unwrap(), ttr: None, divs: vec![f[3].parse().unwrap()], phases: if f.get(6) == Some(&"s") { vec![0, 1, 2] } else { vec![0, 0, 0] }, deaf: f.get(5).map(|d| *d == "1").unwrap_or(false), loads: vec![Load::None], late: vec![], responders: vec![], origin: 0, repoll: 0, endurance: 1 }];
    }
    let tally = Tally::new();
    scenarios.par_iter().for_each(|sc| {
        let cfg = Arc::new(sc.build());
        let mut base = W3Run::new(&cfg);
        // bring the ring up
        while base.now < cfg.converge_by_us && base.panic.is_none() {
            base.step();
        }
        if let Err((s, d)) = if base.panic.is_some() { Err(("c06.harness.panic_before_faults".to_string(), format!("{:?}", base.panic))) } else { Ok(()) } {
            ctx().violation(s, d, json!({"world":"w3-fault","scenario": format!("{:?}", sc)}), 1);
            return;
        }
        // window: one GAP cycle worth of telegrams
        let (_, _, r) = bounds_us(sc.addrs.len(), *sc.addrs.iter().max().unwrap(), sc.hsa, sc.gap, sc.slot_bits, 20.0, sc.baud);
        let window_us = r * (sc.hsa as i64 + 3);
        let mut probe = base.clone();
        let first_tx = probe.bus.tx_count;
        let t_start = probe.now;
        // per-telegram faults: for every n in the window
        let mut lens: Vec<usize> = vec![];
        {
            let mut seen = probe.log.len();
            while probe.now < t_start + window_us {
                probe.step();
                while seen < probe.log.len() {
                    let (_, _, s, e) = &probe.log[seen];
                    lens.push(((e - s) / (11 * crate::bus::BIT)) as usize);
                    seen += 1;
                }
            }
        }
        let n_tx = lens.len();
        let step = tier.pick(1usize, 1);
        let fault_jobs: Vec<(usize, Fault)> = (0..n_tx)
            .step_by(step)
            .flat_map(|k| {
                let len = lens[k];
                let mut v = vec![(first_tx + k, Fault::Drop), (first_tx + k, Fault::Truncate(1)), (first_tx + k, Fault::Flip { byte: 0, bit: 3 }), (first_tx + k, Fault::Flip { byte: len.saturating_sub(1), bit: 0 })];
                if len > 2 {
                    v.push((first_tx + k, Fault::Truncate(len - 1)));
                    v.push((first_tx + k, Fault::Flip { byte: len / 2, bit: 7 }));
                }
                v
            })
            .collect();
        fault_jobs.par_iter().for_each(|(n, f)| {
            let mut run = base.clone();
            run.bus.faults.push((*n, f.clone()));
            // run until the faulted telegram has been sent
            while run.bus.tx_count <= *n && !run.done() && run.now < t_start + window_us * 2 {
                run.step();
            }
            let t_fault = run.now;
            c06_finish(&mut run, sc, t_fault, &format!("{:?} of telegram #{}", f, n - first_tx), &tally, json!({"kind":"fault","n_rel": n - first_tx, "fault": format!("{:?}", f)}));
        });
        // episodes of TWO faults (thorough): every basic fault on telegram k, followed by every basic fault
        // on the 1st, 2nd or 3rd telegram after it (the disturbed recovery traffic itself is hit again)
        if tier == Tier::Thorough && sc.divs == vec![16] {
            let basic = |len: usize| -> Vec<Fault> {
                let mut v = vec![Fault::Drop, Fault::Truncate(1), Fault::Flip { byte: 0, bit: 3 }];
                if len > 2 {
                    v.push(Fault::Truncate(len - 1));
                }
                v
            };
            let jobs2: Vec<(usize, Fault, usize, Fault)> = (0..n_tx)
                .flat_map(|k| {
                    let mut v = vec![];
                    for f1 in basic(lens[k]) {
                        for d in 1..=3usize {
                            // the length of the later telegram is not known in advance: len-1 is replaced by 2
                            for f2 in [Fault::Drop, Fault::Truncate(1), Fault::Truncate(2), Fault::Flip { byte: 0, bit: 3 }] {
                                v.push((first_tx + k, f1.clone(), d, f2));
                            }
                        }
                    }
                    v
                })
                .collect();
            jobs2.par_iter().for_each(|(n, f1, d, f2)| {
                let mut run = base.clone();
                run.bus.faults.push((*n, f1.clone()));
                run.bus.faults.push((*n + *d, f2.clone()));
                while run.bus.tx_count <= *n + *d && !run.done() && run.now < t_start + window_us * 2 {
                    run.step();
                }
                let t_fault = run.now;
                ctx().witness("c06_two_fault_episode");
                c06_finish(&mut run, sc, t_fault, &format!("{:?} of telegram #{} and {:?} of the telegram {} later", f1, n - first_tx, f2, d), &tally, json!({"kind":"fault2","n_rel": n - first_tx, "fault": format!("{:?}", f1), "d": d, "fault2": format!("{:?}", f2)}));
            });
        }
        // the bus is cut for a while: M consecutive telegrams reach nobody (long enough for every station to
        // time out, claim a token and drop everybody else), then the bus is whole again — the lone token
        // holders have to find each other
        for m in tier.pick(vec![40usize], vec![25, 40, 80]) {
            (0..n_tx).into_par_iter().step_by(tier.pick(7, 3)).for_each(|k| {
                let mut run = base.clone();
                for j in 0..m {
                    run.bus.faults.push((first_tx + k + j, Fault::Drop));
                }
                while run.bus.tx_count <= first_tx + k + m - 1 && !run.done() && run.now < t_start + window_us * 4 {
                    run.step();
                }
                let t_fault = run.now;
                ctx().witness("c06_bus_cut_episode");
                c06_finish(&mut run, sc, t_fault, &format!("bus cut for {m} telegrams from #{k}"), &tally, json!({"kind":"cut","k": k, "m": m}));
            });
        }
        // corruption window: three consecutive telegrams garbled
        (0..n_tx.saturating_sub(3)).into_par_iter().step_by(tier.pick(3, 1)).for_each(|k| {
            let mut run = base.clone();
            for j in 0..3 {
                run.bus.faults.push((first_tx + k + j, Fault::Garble));
            }
            while run.bus.tx_count <= first_tx + k + 2 && !run.done() && run.now < t_start + window_us * 2 {
                run.step();
            }
            let t_fault = run.now;
            c06_finish(&mut run, sc, t_fault, &format!("garbled telegrams #{}..#{}", k, k + 2), &tally, json!({"kind":"garble","k": k}));
        });
        // crash (with and without restart) of every station at every effective poll in the window
        let mut walker = base.clone();
        let mut crash_jobs: Vec<(W3Run, usize, i64)> = vec![];
        while walker.now < t_start + window_us {
            let snapshot = walker.clone();
            let (i, effective) = walker.step();
            if effective {
                crash_jobs.push((snapshot, i, walker.now));
            }
        }
        let stride = tier.pick(3usize, 1);
        crash_jobs.par_iter().step_by(stride).for_each(|(snap, i, t)| {
            for variant in 0..tier.pick(4, 6) {
                // variant 0: crash just before this poll; 1: crash right after it, the transmission it may
                // have started never reaches the bus; 2/3: the same with a restart after 2 / 40 slot times;
                // 4/5 (quick: mapped onto 2/3): crash mid-transmission — only the first byte / all but the
                // last byte of the telegram it just started are on the bus, nothing follows
                let mut run = snap.clone();
                let (variant, partial): (u8, Option<bool>) = match (tier, variant) {
                    (Tier::Quick, 2) => (1, Some(true)),
                    (Tier::Quick, 3) => (1, Some(false)),
                    (_, 4) => (1, Some(true)),
                    (_, 5) => (1, Some(false)),
                    (_, v) => (v as u8, None),
                };
                let after = variant % 2 == 1;
                if after {
                    let before_tx = run.bus.tx_count;
                    run.step();
                    let mut cut = run.now;
                    if let (Some(first_only), true) = (partial, run.bus.tx_count > before_tx) {
                        // the telegram just started has `len` bytes; keep 1 or len-1 of them
                        let len = run.bus.trace.last().map(|t| t.bytes.len()).unwrap_or(1) as i64;
                        let keep = if first_only { 1 } else { (len - 1).max(1) };
                        cut = run.now + run.bus.bits_us_floor(11 * keep) + 1;
                        ctx().witness("c06_partial_telegram_left_on_bus");
                    }
                    run.bus.abort_tx(*i as u8, cut);
                }
                run.crashed[*i] = true;
                if variant >= 2 {
                    let d = if variant == 2 { 2 } else { 40 } * sc.slot_bits as i64 * 1_000_000 / BAUDS[sc.baud].1 as i64;
                    run.restart_at[*i] = Some(*t + d);
                }
                let t_fault = if variant >= 2 { run.restart_at[*i].unwrap() } else { *t };
                c06_finish(&mut run, sc, t_fault, &format!("crash of #{} at t={}us variant {}", sc.addrs[*i], t, variant), &tally, json!({"kind":"crash","station": i, "t_us": t, "variant": variant, "partial": partial}));
            }
            // the user takes the station down with set_offline() before this poll and brings THE SAME station
            // object back with set_online() 40 (thorough: also 2) slot times later — what a restart through the
            // API leaves behind in the station is part of the history (found by a seeded change)
            for d_slots in tier.pick(vec![40i64], vec![2, 40]) {
                let mut run = snap.clone();
                run.stations[*i].set_offline();
                run.soft_restart[*i] = true;
                run.crashed[*i] = true;
                let d = d_slots * sc.slot_bits as i64 * 1_000_000 / BAUDS[sc.baud].1 as i64;
                run.restart_at[*i] = Some(*t + d);
                c06_finish(&mut run, sc, *t + d, &format!("set_offline() of #{} at t={}us, set_online() {} slot times later", sc.addrs[*i], t, d_slots), &tally, json!({"kind":"soft_restart","station": i, "t_us": t, "d_slots": d_slots}));
                ctx().witness("c06_soft_restart");
            }
        });
        // a crash (station gone for good, before its poll) FOLLOWED by a telegram fault: one of the next eight
        // telegrams of the survivors is dropped or cut to 1 or 2 bytes while they are sorting the ring out
        // (rings of three and more on the Tslot/16 schedules; quick: one scenario, every sixth crash point)
        let crash_then_fault = std::env::var("PBMC_C06_EXPERIMENT").is_ok() || sc.addrs.len() >= 3 && sc.divs == vec![16] && sc.ttr.is_none() && (tier == Tier::Thorough || (sc.addrs == vec![0, 3, 5] && sc.phases == vec![0, 0, 0]));
        if crash_then_fault {
            let stride2 = if std::env::var("PBMC_C06_EXPERIMENT").is_ok() { 1 } else { tier.pick(6usize, 2) };
            crash_jobs.par_iter().step_by(stride2).for_each(|(snap, i, t)| {
                for d in 0..8usize {
                    for f2 in [Fault::Truncate(2), Fault::Truncate(1), Fault::Drop] {
                        let mut run = snap.clone();
                        run.crashed[*i] = true;
                        let n = run.bus.tx_count + d;
                        run.bus.faults.push((n, f2.clone()));
                        while run.bus.tx_count <= n && !run.done() && run.now < t + window_us {
                            run.step();
                        }
                        let t_fault = run.now;
                        ctx().witness("c06_crash_then_fault_episode");
                        c06_finish(&mut run, sc, t_fault, &format!("crash of #{} at t={}us, then {:?} of the telegram {} later", sc.addrs[*i], t, f2, d), &tally, json!({"kind":"crash+fault","station": i, "t_us": t, "d": d, "fault2": format!("{:?}", f2)}));
                    }
                }
            });
        }
    });
    // cold-start claim race: two stations whose silence time-outs expire at (almost) the same instant
    let races: Vec<(Vec<u8>, u8)> = vec![(vec![1, 2], 6), (vec![0, 3], 6), (vec![2, 4, 5], 6)];
    races.par_iter().for_each(|(addrs, hsa)| {
        for off_q in tier.pick(vec![0i64, 2], vec![-2, -1, 0, 1, 2, 3]) {
            let sc = Scenario { addrs: addrs.clone(), hsa: *hsa, gap: 1, baud: 1, slot_bits: 300, ttr: None, divs: vec![16], phases: vec![0, 1, 2], deaf: false, loads: vec![Load::None], late: vec![], responders: vec![], origin: 0, repoll: 0, endurance: 1 };
            let mut cfg = sc.build();
            let slot_us = cfg.slot_us();
            // station 0 (lowest address) joins later by exactly the difference of the time-outs
            let d = 2 * (addrs[1] as i64 - addrs[0] as i64) * slot_us;
            cfg.stations[0].join_us = d + off_q * (33 * slot_us / cfg.slot_bits as i64) / 2;
            cfg.stations[1].join_us = 0;
            let cfg = Arc::new(cfg);
            let mut run = W3Run::new(&cfg);
            while run.now < d + 20 * slot_us && run.panic.is_none() {
                run.step();
            }
            let collided = run.c01.violations.iter().any(|v| v.0.contains("collision"));
            if collided {
                ctx().witness("c06_claim_race_collision_generated");
            }
            let t_fault = run.now;
            c06_finish(&mut run, &sc, t_fault, &format!("cold-start claim race offset {off_q}"), &tally, json!({"kind":"race","off_q": off_q}));
        }
    });
    let mut ev = Evidence::default();
    ev.level = "fault_enumeration";
    ev.states = tally.runs.load(Ordering::Relaxed);
    ev.transitions = tally.polls.load(Ordering::Relaxed);
    ev.traces_validated = ev.states;
    ev.evaluations = ev.states;
    ev.distinct_nontrivial = ev.states;
    ev.rule = "per scenario the ring is brought up on real stations; then, from a snapshot, every single fault of the plan is applied once: drop / truncate to 1 / truncate to len-1 / bit flip in first, middle, last byte of EVERY telegram of a window of HSA+3 rotations, a 3-telegram corruption window at every position, and a crash of every station at every effective poll (before the poll / right after it incl. mid-transmission, without restart and with restart after 2 and 40 slot times); plus the cold-start claim race; each execution continues fault-free for T_rec and the stability window and is judged by the C02 ring predicate and the silence bound; all executions are distinct by construction".into();
    ev.samples = vec![json!({"scenario": format!("{:?}", scenarios[0]), "fault": "Drop of telegram #5"}), json!({"scenario": format!("{:?}", scenarios[scenarios.len() - 1]), "fault": "crash of #5 mid-transmission, restart after 40 slot times"})];
    ev.exhaustive = true;
    ev.bounds = json!({"scenarios": scenarios.len(), "faults_per_execution": tier.pick("1", "1; 2 (k, k+1..3) on the Tslot/16 schedules"), "window_rotations": "HSA+3", "crash_stride": tier.pick(3, 1), "poll_schedules": format!("{:?}", schedules)});
    let outcomes = tally.outcomes.lock().unwrap().clone();
    ev.distinct_outcomes = outcomes.len() as u64;
    ev.extra.insert("outcomes".into(), json!(outcomes));
    ev.required_witnesses = vec!["c06_recovered", "c06_partial_telegram_left_on_bus", "c06_soft_restart"];
    ev.assumptions.push("collisions are modelled as corrupted bytes for everybody who listens; both PHY models are run: a transmitting station hears the colliding bytes corrupted / does not hear them at all; a station that took itself offline after two address-collision observations is not 'online'".into());
    finish(ev)
}


// ------------------------------------------------------------------------------------------------
// C11 part (2): token acceptance inside a running ring of real stations — forged token offers from a
// station that is not the predecessor are injected after every telegram of a window; the addressed
// station must not start transmitting on a first offer (C01's permission monitor decides).

pub fn c11_forged_offers(tier: Tier) -> (u64, u64) {
    let sets: Vec<(Vec<u8>, u8)> = tier.pick(vec![(vec![1, 2], 6), (vec![0, 3, 5], 6)], vec![(vec![1, 2], 6), (vec![0, 3, 5], 6), (vec![0, 5], 6), (vec![2, 4, 5], 7), (vec![0, 1, 2, 5], 6)]);
    let runs = AtomicU64::new(0);
    let polls = AtomicU64::new(0);
    sets.par_iter().for_each(|(addrs, hsa)| {
        for divs in tier.pick(vec![vec![16i64]], vec![vec![16], vec![4], vec![16, 4]]) {
            let sc = Scenario { addrs: addrs.clone(), hsa: *hsa, gap: 1, baud: 1, slot_bits: 300, ttr: None, divs: divs.clone(), phases: vec![0, 1, 2], deaf: false, loads: vec![Load::None], late: vec![], responders: vec![], origin: 0, repoll: 0, endurance: 1 };
            let cfg = Arc::new(sc.build());
            let mut base = W3Run::new(&cfg);
            while base.now < cfg.converge_by_us && base.panic.is_none() {
                base.step();
            }
            if base.panic.is_some() || !base.c01.violations.is_empty() {
                continue;
            }
            let (_, _, r) = bounds_us(addrs.len(), *addrs.iter().max().unwrap(), *hsa, 1, 300, 20.0, 1);
            let first_tx = base.bus.tx_count;
            // how many telegrams are in a window of HSA+3 rotations
            let mut probe = base.clone();
            let t0 = probe.now;
            while probe.now < t0 + r * (*hsa as i64 + 3) {
                probe.step();
            }
            let n_tx = probe.bus.tx_count - first_tx;
            // strangers: an unused address below HSA, one above HSA
            let unused: Vec<u8> = (0..*hsa).filter(|a| !addrs.contains(a)).collect();
            let strangers: Vec<u8> = vec![*unused.first().unwrap_or(&100), 100];
            let jobs: Vec<(usize, u8, u8, bool)> = (0..n_tx).step_by(tier.pick(2, 1)).flat_map(|k| addrs.iter().flat_map(move |s| [(k, *s, false), (k, *s, true)])).flat_map(|(k, s, dbl)| strangers.iter().map(move |x| (k, s, *x, dbl)).collect::<Vec<_>>()).collect();
            jobs.par_iter().for_each(|(k, target, stranger, double)| {
                let mut run = base.clone();
                let tok = crate::refcodec::encode(&crate::refcodec::token(*target, *stranger));
                run.forged.push((first_tx + k, tok.clone()));
                if *double {
                    run.forged.push((first_tx + k, tok.clone()));
                }
                run.horizon_us = run.now + r * (*hsa as i64 + 3) + r * 6;
                while !run.done() {
                    run.step();
                }
                runs.fetch_add(1, Ordering::Relaxed);
                polls.fetch_add(run.polls, Ordering::Relaxed);
                if let Some(p) = &run.panic {
                    ctx().violation(format!("c11.ring.run_ended_by_panic.{}", p.split(' ').next().unwrap_or("")), p.clone(), json!({"world":"w3-forged","scenario": sc.to_json(), "after_telegram": k, "target": target, "stranger": stranger, "double": double}), 5);
                    return;
                }
                let accepted_double = *double && run.forged_offers.iter().any(|o| o.2 >= 2);
                if accepted_double {
                    ctx().witness("c11_ring_second_offer_delivered");
                }
                // a second offer legitimately creates a second token holder (the forger's fault): only the
                // single, first offers are judged by the single-holder permission monitor
                for (sig, detail) in run.c01.violations.iter().filter(|v| !*double && v.0.contains("without_permission")).take(1) {
                    ctx().violation(
                        format!("c11.ring.{}", sig.trim_start_matches("c01.")),
                        format!("{detail} [forged token {stranger}->{target} ({}) injected 11 bit after telegram #{k}; stations {:?} HSA {} divs {:?}]", if *double { "twice" } else { "once" }, addrs, hsa, divs),
                        json!({"world":"w3-forged","scenario": sc.to_json(), "after_telegram": k, "target": target, "stranger": stranger, "double": double}),
                        (addrs.len() * 10 + *double as usize) as u64,
                    );
                }
                ctx().witness("c11_ring_forged_offer_run");
            });
        }
    });
    (runs.load(Ordering::Relaxed), polls.load(Ordering::Relaxed))
}

pub fn replay_forged(r: &Value) {
    let sc = Scenario::from_json(&r["scenario"]);
    let cfg = Arc::new(sc.build());
    let mut run = W3Run::new(&cfg);
    while run.now < cfg.converge_by_us && run.panic.is_none() {
        run.step();
    }
    let first_tx = run.bus.tx_count;
    let k = r["after_telegram"].as_u64().unwrap() as usize;
    let tok = crate::refcodec::encode(&crate::refcodec::token(r["target"].as_u64().unwrap() as u8, r["stranger"].as_u64().unwrap() as u8));
    run.forged.push((first_tx + k, tok.clone()));
    if r["double"].as_bool().unwrap_or(false) {
        run.forged.push((first_tx + k, tok));
    }
    let mark = run.log.len();
    let (_, _, rr) = bounds_us(sc.addrs.len(), *sc.addrs.iter().max().unwrap(), sc.hsa, 1, 300, 20.0, 1);
    run.horizon_us = run.now + rr * (sc.hsa as i64 + 9);
    while !run.done() {
        run.step();
    }
    let rate = run.bus.rate;
    println!("(converged at {} us, log index {mark}, first_tx {first_tx})", cfg.converge_by_us);
    for (a, f, s, e) in run.log.iter().skip((mark + k).saturating_sub(6)).take(40) {
        println!("{:>10} us .. {:>10} us  #{:<3} {}", s / rate, e / rate, a, f.as_ref().map(|f| f.short()).unwrap_or("??".into()));
    }
    println!("monitor: {:?}", run.c01.violations);
}
