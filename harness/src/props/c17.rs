//! C17 — diagnostics are decoded correctly and block iteration is total (W1 via the public DP path).

use crate::dprig::*;
use crate::engine::*;
use crate::refcodec as rc;
use profirust::dp::{ChannelDataType, ChannelError, ExtDiagBlock};
use profirust::fdl::FdlApplication;
use rayon::prelude::*;
use serde_json::{json, Value};
use std::sync::atomic::{AtomicU64, Ordering};

#[derive(Clone, Debug, PartialEq, Eq)]
pub enum RefBlock {
    Identifier(Vec<u8>),
    Channel { module: u8, channel: u8, input: bool, output: bool, dtype: u8, error: u8 },
    Device(Vec<u8>),
}

/// Reference block parser. `yield_len1`: whether blocks of announced length 1 (header only) are
/// yielded as empty blocks (true) or treated as malformed (false); both readings are accepted.
pub fn ref_blocks(raw: &[u8], yield_len1: bool) -> Vec<(usize, RefBlock)> {
    let mut out = vec![];
    let mut i = 0;
    while i < raw.len() {
        let h = raw[i];
        let rem = &raw[i..];
        match h >> 6 {
            0b01 | 0b00 => {
                let len = (h & 0x3f) as usize;
                if len == 0 || len > rem.len() || (len == 1 && !yield_len1) {
                    break;
                }
                let body = rem[1..len].to_vec();
                out.push((i, if h >> 6 == 1 { RefBlock::Identifier(body) } else { RefBlock::Device(body) }));
                i += len;
            }
            0b10 => {
                if rem.len() < 3 {
                    break;
                }
                out.push((
                    i,
                    RefBlock::Channel {
                        module: rem[0] & 0x3f,
                        channel: rem[1] & 0x3f,
                        input: rem[1] & 0x40 != 0,
                        output: rem[1] & 0x80 != 0,
                        dtype: rem[2] >> 5,
                        error: rem[2] & 0x1f,
                    },
                ));
                i += 3;
            }
            _ => break,
        }
    }
    out
}

fn expected_error(code: u8) -> ChannelError {
    match code {
        1 => ChannelError::ShortCircuit,
        2 => ChannelError::UnderVoltage,
        3 => ChannelError::OverVoltage,
        4 => ChannelError::OverLoad,
        5 => ChannelError::OverTemperature,
        6 => ChannelError::LineBreak,
        7 => ChannelError::UpperLimitOvershoot,
        8 => ChannelError::LowerLimitUndershoot,
        9 => ChannelError::Error,
        16..=31 => ChannelError::Vendor(code),
        r => ChannelError::Reserved(r),
    }
}
fn expected_dtype(code: u8) -> ChannelDataType {
    match code {
        1 => ChannelDataType::Bit,
        2 => ChannelDataType::Bit2,
        3 => ChannelDataType::Bit4,
        4 => ChannelDataType::Byte,
        5 => ChannelDataType::Word,
        6 => ChannelDataType::DWord,
        _ => ChannelDataType::Invalid,
    }
}

/// Compare the blocks the implementation yields over `raw` with the reference.
fn compare_blocks(got: &[(Option<usize>, ExtDiagBlock)], raw: &[u8]) -> Result<(), String> {
    let try_ref = |r: &[(usize, RefBlock)]| -> Result<(), String> {
        if r.len() != got.len() {
            return Err(format!("{} blocks yielded, reference has {}", got.len(), r.len()));
        }
        for (k, ((off, rb), (goff, gb))) in r.iter().zip(got.iter()).enumerate() {
            let ok = match (rb, gb) {
                (RefBlock::Identifier(b), ExtDiagBlock::Identifier(bits)) => {
                    bits.len() == b.len() * 8 && (0..bits.len()).all(|i| bits[i] == ((b[i / 8] >> (i % 8)) & 1 != 0))
                }
                (RefBlock::Device(b), ExtDiagBlock::Device(d)) => {
                    let pos_ok = match goff {
                        Some(g) => d.is_empty() || *g == off + 1,
                        None => false,
                    };
                    b.as_slice() == *d && pos_ok
                }
                (RefBlock::Channel { module, channel, input, output, dtype, error }, ExtDiagBlock::Channel(c)) => {
                    c.module == *module && c.channel == *channel && c.input == *input && c.output == *output && c.dtype == expected_dtype(*dtype) && c.error == expected_error(*error)
                }
                _ => false,
            };
            if !ok {
                return Err(format!("block {k} at offset {off}: yielded {:?}, reference {:?}", gb, rb));
            }
        }
        Ok(())
    };
    let a = try_ref(&ref_blocks(raw, true));
    if a.is_ok() {
        return a;
    }
    let b = try_ref(&ref_blocks(raw, false));
    if b.is_ok() {
        return b;
    }
    a
}

#[derive(Clone, Debug)]
pub struct Case {
    /// 0: probe reply while Offline, 1: reply in ValidateConfig, 2: requested diagnostics in data exchange, 3: DpScanner
    pub path: u8,
    pub pdu: Vec<u8>,
    pub dsap: Option<u8>,
    pub ssap: Option<u8>,
    pub buf: Option<usize>,
}

pub fn case_json(c: &Case) -> Value {
    json!({"path": c.path, "pdu": hex(&c.pdu), "dsap": c.dsap, "ssap": c.ssap, "buf": c.buf})
}

const ADDR: u8 = 9;

/// Drive a fresh master so that its next reply for peripheral 0 is evaluated as diagnostics on the
/// wanted path. Returns the rig with the request outstanding.
fn prepare(path: u8, buf: Option<usize>) -> Result<Rig, String> {
    let mut p = PeriphCfg::simple(ADDR, 2, 1);
    p.diag_buf = buf;
    let cfg = RigCfg::basic(vec![p.clone()]);
    let mut rig = Rig::new(&cfg);
    let mut slave = RefSlave::new(&p);
    let want_service_count = match path {
        0 => 0, // first diag
        1 => 3, // diag, prm, cfg answered; next diag outstanding
        _ => 5, // + diag, first data exchange; then request_diagnostics
    };
    let mut answered = 0;
    for _ in 0..40 {
        rig.advance(200);
        let sent = match rig.transmit(false) {
            Some(s) => s,
            None => continue,
        };
        if sent.expects_reply.is_none() {
            continue;
        }
        if answered == want_service_count {
            if path == 2 && classify(&sent.frame) != SlaveService::Diag {
                return Err(format!("expected a diagnostics request, got {}", sent.frame.short()));
            }
            return Ok(rig);
        }
        let resp = slave.handle(&sent.frame).ok_or("slave did not answer")?;
        rig.reply(ADDR, &resp);
        answered += 1;
        if path == 2 && answered == want_service_count {
            if !rig.periph(0).is_running() {
                return Err("bring-up did not reach data exchange".into());
            }
            rig.periph(0).request_diagnostics();
        }
    }
    Err("could not reach the wanted state".into())
}

/// Paths 4 and 5: like paths 1 and 2, but an EARLIER diagnostics request of the same history (4: the
/// offline probe before the validating request; 5: a first request_diagnostics() round in data exchange)
/// was answered with `first`: the same 6 header bytes as the case's reply and OTHER extended data.
/// What is on record afterwards must be the last accepted reply, not a mix (found by a seeded change:
/// "same header" taken for "same diagnostics").
fn prepare_second(path: u8, buf: Option<usize>, first: &[u8]) -> Result<Rig, String> {
    let mut p = PeriphCfg::simple(ADDR, 2, 1);
    p.diag_buf = buf;
    let cfg = RigCfg::basic(vec![p.clone()]);
    let mut rig = Rig::new(&cfg);
    let mut slave = RefSlave::new(&p);
    let mut diag_seen = 0;
    let mut forged = false;
    for _ in 0..80 {
        rig.advance(200);
        let sent = match rig.transmit(false) {
            Some(s) => s,
            None => continue,
        };
        if sent.expects_reply.is_none() {
            continue;
        }
        let is_diag = classify(&sent.frame) == SlaveService::Diag;
        if is_diag {
            diag_seen += 1;
        }
        if path == 4 {
            // forge the probe (first diagnostics request), stop at the validating one (second)
            if is_diag && diag_seen == 1 {
                let _ = slave.handle(&sent.frame);
                rig.reply(ADDR, first);
                forged = true;
                continue;
            }
            if is_diag && forged {
                return Ok(rig);
            }
        } else {
            // data exchange reached: first user-requested round forged, second one is the case's
            if is_diag && forged {
                return Ok(rig);
            }
            if is_diag && rig.periph(0).is_running() && !forged {
                let _ = slave.handle(&sent.frame);
                rig.reply(ADDR, first);
                forged = true;
                rig.periph(0).request_diagnostics();
                continue;
            }
        }
        let resp = slave.handle(&sent.frame).ok_or("slave did not answer")?;
        rig.reply(ADDR, &resp);
        if path == 5 && !forged && rig.periph(0).is_running() {
            rig.periph(0).request_diagnostics();
        }
    }
    Err("unreachable".into())
}

pub fn run_case(c: &Case) -> Result<&'static str, (String, String)> {
    let frame = rc::encode(&rc::RFrame::Data { da: 2, sa: ADDR, dsap: c.dsap, ssap: c.ssap, fc: 0x08, du: c.pdu.clone() });
    let well_formed = c.dsap == Some(62) && c.ssap == Some(60) && c.pdu.len() >= 6;
    let word = if c.pdu.len() >= 2 { u16::from_le_bytes([c.pdu[0], c.pdu[1]]) } else { 0 };
    let ext_flag = word & 0x0008 != 0;
    let tail: &[u8] = if c.pdu.len() >= 6 { &c.pdu[6..] } else { &[] };

    if c.path == 3 {
        // DP scanner
        let fdl = profirust::fdl::FdlActiveStation::new(build_params(&RigCfg::basic(vec![])));
        let mut sc = profirust::dp::scan::DpScanner::new();
        let now = profirust::time::Instant::from_micros(1000);
        let r = catch(|| {
            let t = profirust::fdl::Telegram::deserialize(&frame).unwrap().unwrap().0;
            sc.receive_reply(now, &fdl, ADDR, t);
            sc.take_last_event()
        })
        .map_err(|p| ("scanner.panic".to_string(), format!("{}:{} {}", p.file, p.line, p.msg)))?;
        use profirust::dp::scan::DpScanEvent;
        return match (well_formed, r) {
            (true, Some(DpScanEvent::PeripheralFound(d))) => {
                let exp_master = if c.pdu[3] == 255 { None } else { Some(c.pdu[3]) };
                if d.address != ADDR || d.ident != u16::from_be_bytes([c.pdu[4], c.pdu[5]]) || d.master_address != exp_master {
                    Err(("scanner.description".into(), format!("{d:?} for pdu {}", hex(&c.pdu[..6]))))
                } else {
                    Ok("scanner_found")
                }
            }
            (false, None) => Ok("scanner_ignored"),
            (wf, o) => Err(("scanner.event".into(), format!("well_formed={wf} but event {o:?}"))),
        };
    }

    let mut rig = if c.path >= 4 {
        // the earlier reply: same header, extended part with every byte inverted (and one byte longer)
        let mut first_pdu = c.pdu[..6.min(c.pdu.len())].to_vec();
        first_pdu.extend(tail.iter().map(|b| !*b));
        first_pdu.push(0x5A);
        let first = rc::encode(&rc::RFrame::Data { da: 2, sa: ADDR, dsap: Some(62), ssap: Some(60), fc: 0x08, du: first_pdu });
        match prepare_second(c.path, c.buf, &first) {
            Ok(r) => r,
            // headers that keep the master from getting any further (faults, not ready) have no second round
            Err(e) if e == "unreachable" => return Ok("second_round_unreachable"),
            Err(e) => return Err(("harness.prepare".to_string(), e)),
        }
    } else {
        prepare(c.path, c.buf).map_err(|e| ("harness.prepare".to_string(), e))?
    };
    // previous diagnostics (for the "ignored / not stored" clauses)
    let prev = rig.periph(0).last_diagnostics().map(|d| (d.flags.bits(), d.ident_number, d.master_address, d.extended_diagnostics.raw_diag_buffer().map(|b| b.to_vec())));
    catch(|| rig.reply(ADDR, &frame)).map_err(|p| ("receive_reply.panic".to_string(), format!("{}:{} {}", p.file, p.line, p.msg)))?;
    let per = rig.periph(0);
    let now_diag = per.last_diagnostics();
    if !well_formed {
        let cur = now_diag.map(|d| (d.flags.bits(), d.ident_number, d.master_address, d.extended_diagnostics.raw_diag_buffer().map(|b| b.to_vec())));
        if cur != prev {
            return Err(("malformed_reply_changed_diagnostics".into(), format!("before {prev:?} after {cur:?}")));
        }
        return Ok("ignored");
    }
    let d = match now_diag {
        Some(d) => d,
        None => return Err(("no_diagnostics_reported".into(), "well-formed reply but last_diagnostics() is None".into())),
    };
    // 6-byte standard part; the always-one status bit (0x0400) may be stripped
    if d.flags.bits() | 0x0400 != word | 0x0400 {
        return Err(("flags".into(), format!("reported {:#06x}, reply bytes say {:#06x}", d.flags.bits(), word)));
    }
    // the NAMED flags, anchored to the bit positions of the standard (status byte 1 = low byte, status
    // byte 2 = high byte of the word): a flag is reported exactly when its bit is set in the reply
    {
        use profirust::dp::DiagnosticFlags as F;
        const NAMED: [(&str, u16); 11] = [
            ("STATION_NOT_READY", 0x0002),
            ("CONFIGURATION_FAULT", 0x0004),
            ("EXT_DIAG", 0x0008),
            ("NOT_SUPPORTED", 0x0010),
            ("PARAMETER_FAULT", 0x0040),
            ("PARAMETER_REQUIRED", 0x0100),
            ("STATUS_DIAGNOSTICS", 0x0200),
            ("PERMANENT_BIT", 0x0400),
            ("WATCHDOG_ON", 0x0800),
            ("FREEZE_MODE", 0x1000),
            ("SYNC_MODE", 0x2000),
        ];
        let named: [F; 11] = [F::STATION_NOT_READY, F::CONFIGURATION_FAULT, F::EXT_DIAG, F::NOT_SUPPORTED, F::PARAMETER_FAULT, F::PARAMETER_REQUIRED, F::STATUS_DIAGNOSTICS, F::PERMANENT_BIT, F::WATCHDOG_ON, F::FREEZE_MODE, F::SYNC_MODE];
        for ((name, bit), f) in NAMED.iter().zip(named.iter()) {
            if *bit == 0x0400 {
                continue;
            }
            if d.flags.contains(*f) != (word & bit != 0) {
                return Err(("named_flag".into(), format!("{name} reported {} but bit {bit:#06x} of the reply word {word:#06x} says {}", d.flags.contains(*f), word & bit != 0)));
            }
        }
    }
    if d.ident_number != u16::from_be_bytes([c.pdu[4], c.pdu[5]]) {
        return Err(("ident".into(), format!("reported {:#06x}, reply bytes {:02x} {:02x}", d.ident_number, c.pdu[4], c.pdu[5])));
    }
    let exp_master = if c.pdu[3] == 255 { None } else { Some(c.pdu[3]) };
    if d.master_address != exp_master {
        return Err(("master_address".into(), format!("reported {:?}, reply byte {}", d.master_address, c.pdu[3])));
    }
    let ext = d.extended_diagnostics;
    // storage clause
    let prev_raw = prev.as_ref().and_then(|p| p.3.clone());
    let raw = ext.raw_diag_buffer().map(|b| b.to_vec());
    let mut outcome = "decoded";
    match c.buf {
        None | Some(0) => {
            if raw.is_some() {
                return Err(("ext.stored_without_buffer".into(), format!("{raw:?}")));
            }
        }
        Some(n) => {
            if ext_flag {
                if tail.len() <= n {
                    if raw.as_deref() != Some(tail) {
                        return Err(("ext.not_stored".into(), format!("fits ({} <= {n}) but buffer holds {:?}", tail.len(), raw.as_ref().map(|r| hex(r)))));
                    }
                    outcome = if c.path >= 4 { "ext_stored_second_round" } else { "ext_stored" };
                } else {
                    let before = prev_raw.clone().unwrap_or_default();
                    if raw.clone().unwrap_or_default() != before {
                        return Err(("ext.stored_although_too_large".into(), format!("{} > {n}, buffer now {:?}", tail.len(), raw.as_ref().map(|r| hex(r)))));
                    }
                    outcome = "ext_too_large";
                }
            }
        }
    }
    // Debug formatting path (the master's own log::debug! takes it)
    catch(|| format!("{:?}", d)).map_err(|p| ("debug_format.panic".to_string(), format!("{}:{} {}", p.file, p.line, p.msg)))?;
    // block iteration: total, inside the buffer, consecutive, decoded per type
    let base = raw.as_ref().map(|_| ext.raw_diag_buffer().unwrap().as_ptr() as usize);
    let it = catch(|| {
        let mut v = vec![];
        for b in ext.iter_diag_blocks() {
            let off = match (&b, base) {
                (ExtDiagBlock::Device(dv), Some(bs)) => Some((dv.as_ptr() as usize).wrapping_sub(bs)),
                _ => None,
            };
            v.push((off, b));
            if v.len() > 400 {
                break;
            }
        }
        v
    })
    .map_err(|p| (if raw.is_none() { "iter.panic_without_buffer".to_string() } else { "iter.panic".to_string() }, format!("{}:{} {}", p.file, p.line, p.msg)))?;
    if it.len() > 400 {
        return Err(("iter.does_not_terminate".into(), "more than 400 blocks from a <=244 byte buffer".into()));
    }
    if let Some(raw) = &raw {
        compare_blocks(&it, raw).map_err(|e| ("iter.blocks".to_string(), format!("{e}; raw = {}", hex(raw))))?;
    } else if !it.is_empty() {
        return Err(("iter.blocks_without_buffer".into(), format!("{} blocks", it.len())));
    }
    Ok(outcome)
}

fn block_catalogue() -> Vec<Vec<u8>> {
    let mut v = vec![];
    for len in [0usize, 1, 2, 3, 63] {
        let mut b = vec![0x40 | len as u8];
        for i in 1..len {
            b.push(0x80 | i as u8);
        }
        v.push(b); // identifier
    }
    v.push(vec![0x85, 0xC3, 0xA7]); // channel: module 5, ch 3 in+out, word, overtemp? (0xA7 = 101 00111)
    v.push(vec![0xBF, 0x7F, 0x10]); // channel extremes
    for len in [0usize, 1, 2, 5, 63] {
        let mut b = vec![len as u8];
        for i in 1..len {
            b.push(0x10 + i as u8);
        }
        v.push(b); // device
    }
    v.push(vec![0xC1, 0x00]); // reserved
    v
}

pub fn run(tier: Tier) -> ! {
    let c = ctx();
    let mut cases: Vec<Case> = vec![];
    let std6 = |w: u16, b2: u8, m: u8, id: u16| -> Vec<u8> { vec![w as u8, (w >> 8) as u8, b2, m, (id >> 8) as u8, id as u8] };
    let tails: [Vec<u8>; 3] = [vec![], vec![0x42, 0x05], vec![0x03, 0xAA, 0xBB, 0x85, 0xC3, 0xA7]];
    // A: all 2^16 flag words
    for w in 0..=0xFFFFu16 {
        for (ti, t) in tails.iter().enumerate() {
            let mut pdu = std6(w, 0, 2, 0x1337);
            pdu.extend_from_slice(t);
            let paths: &[u8] = if w % 257 == 0 || tier == Tier::Thorough && w % 16 == (ti as u16) { &[0, 1, 2, 3] } else if ti == 0 { &[0, 3] } else { &[0] };
            for p in paths {
                cases.push(Case { path: *p, pdu: pdu.clone(), dsap: Some(62), ssap: Some(60), buf: Some(16) });
            }
        }
    }
    // B: master addresses, idents, byte 2
    for m in [0u8, 2, 125, 254, 255] {
        for id in [0u16, 0x1337, 0xFFFF, 0x00FF, 0xFF00] {
            for b2 in [0u8, 0x80, 0xFF] {
                for p in 0..4u8 {
                    cases.push(Case { path: p, pdu: std6(0x0400, b2, m, id), dsap: Some(62), ssap: Some(60), buf: Some(8) });
                }
            }
        }
    }
    // wrong SAPs
    for (ds, ss) in [(None, None), (Some(62), None), (None, Some(60)), (Some(61), Some(60)), (Some(62), Some(61)), (Some(60), Some(62))] {
        for p in 0..4u8 {
            cases.push(Case { path: p, pdu: std6(0x0408, 0, 2, 0x1337), dsap: ds, ssap: ss, buf: Some(8) });
        }
    }
    // C: all PDU lengths 0..=244, buffers
    for len in 0..=244usize {
        let mut pdu = std6(0x0408, 0, 2, 0x1337);
        let mut k = 0;
        while pdu.len() < len {
            let room = len - pdu.len();
            let bl = room.min(63).max(1);
            pdu.push(bl as u8);
            for _ in 1..bl {
                k += 1;
                pdu.push(k as u8);
            }
        }
        pdu.truncate(len);
        let exact = len.saturating_sub(6);
        for buf in [None, Some(1), Some(exact.saturating_sub(1)), Some(exact), Some(244)] {
            for p in [0u8, 2, 3] {
                cases.push(Case { path: p, pdu: pdu.clone(), dsap: Some(62), ssap: Some(60), buf });
            }
        }
    }
    // D: all 1- and 2-byte extended-diagnostics strings
    for a in 0..=255u8 {
        cases.push(Case { path: 0, pdu: [std6(0x0408, 0, 2, 1), vec![a]].concat(), dsap: Some(62), ssap: Some(60), buf: Some(244) });
        for b in 0..=255u8 {
            cases.push(Case { path: if b % 64 == 1 { 2 } else { 0 }, pdu: [std6(0x0408, 0, 2, 1), vec![a, b]].concat(), dsap: Some(62), ssap: Some(60), buf: Some(if b % 2 == 0 { 244 } else { 2 }) });
        }
    }
    // E: all sequences of <=3 catalogue blocks, cut at every length
    let cat = block_catalogue();
    let mut seqs: Vec<Vec<u8>> = vec![];
    for a in &cat {
        seqs.push(a.clone());
        for b in &cat {
            seqs.push([a.clone(), b.clone()].concat());
            for d in &cat {
                if a.len() + b.len() + d.len() <= tier.pick(80, 200) {
                    seqs.push([a.clone(), b.clone(), d.clone()].concat());
                }
            }
        }
    }
    for s in &seqs {
        for cut in 0..=s.len() {
            if tier == Tier::Quick && s.len() > 12 && cut > 8 && cut < s.len() - 4 && cut % 7 != 0 {
                continue;
            }
            let t = &s[..cut];
            let bufs: Vec<Option<usize>> = if cut == s.len() { vec![None, Some(1), Some(cut.saturating_sub(1)), Some(cut), Some(244)] } else { vec![Some(244)] };
            for buf in bufs {
                cases.push(Case { path: 0, pdu: [std6(0x0408, 0, 2, 1), t.to_vec()].concat(), dsap: Some(62), ssap: Some(60), buf });
            }
        }
    }

    // F: second diagnostics reply with the same header and other extended data (paths 4, 5)
    {
        let mut extra = vec![];
        for case in &cases {
            let wf = case.dsap == Some(62) && case.ssap == Some(60) && case.pdu.len() > 6 && case.pdu[0] & 0x08 != 0;
            if wf && case.buf.map(|b| b > 0).unwrap_or(false) && (case.path == 1 || case.path == 2) {
                let mut c2 = case.clone();
                c2.path = case.path + 3;
                extra.push(c2);
            }
        }
        // headers a healthy slave really sends, with every catalogue block as extended data
        for w in [0x0408u16, 0x0c08, 0x0608, 0x2c08] {
            for (i, blk) in block_catalogue().iter().enumerate() {
                for path in [4u8, 5] {
                    extra.push(Case { path, pdu: [std6(w, 0, 2, 0x1337), blk.clone()].concat(), dsap: Some(62), ssap: Some(60), buf: Some(if i % 2 == 0 { 244 } else { blk.len() + 1 }) });
                }
            }
        }
        cases.extend(extra);
    }

    let evals = AtomicU64::new(0);
    let outcomes: std::sync::Mutex<std::collections::BTreeMap<&'static str, u64>> = Default::default();
    cases.par_iter().for_each(|case| {
        if c.should_stop() {
            return;
        }
        evals.fetch_add(1, Ordering::Relaxed);
        // any panic of an accessor that the case evaluation calls unguarded is a violation of its own
        let r = match catch(|| run_case(case)) {
            Ok(r) => r,
            Err(p) => Err(("accessor.panic".to_string(), format!("{}:{} {}", p.file, p.line, p.msg))),
        };
        match r {
            Ok(o) => {
                *outcomes.lock().unwrap().entry(o).or_insert(0) += 1;
            }
            Err((clause, detail)) => {
                c.violation(format!("c17.{clause}"), format!("{detail}; path={} buf={:?} pdu={}", case.path, case.buf, hex(&case.pdu[..case.pdu.len().min(20)])), case_json(case), case.pdu.len() as u64 + case.path as u64 * 1000);
            }
        }
    });
    let outcomes = outcomes.into_inner().unwrap();
    for (k, v) in &outcomes {
        c.witness_n(k, *v);
    }
    let mut ev = Evidence::default();
    ev.level = "exploration";
    ev.evaluations = evals.load(Ordering::Relaxed);
    let mut distinct = std::collections::HashSet::new();
    for case in &cases {
        if case.pdu.len() > 6 || case.path > 0 {
            distinct.insert(fnv64(format!("{:?}", case).as_bytes()));
        }
    }
    ev.distinct_nontrivial = distinct.len() as u64;
    ev.rule = "diagnostics replies delivered through DpMaster::receive_reply / DpScanner::receive_reply: all 2^16 flag words x 3 tails, master-address x ident x byte-2 grid, wrong SAPs, all PDU lengths 0..244 x 5 buffer sizes, all 1- and 2-byte extended strings, all sequences of <=3 catalogue blocks cut at every length; distinct = distinct (path, pdu, SAPs, buffer) tuples; non-trivial = has extended data or is not the plain probe path".into();
    ev.samples = cases.iter().step_by(cases.len() / 5 + 1).map(case_json).collect();
    ev.exhaustive = true;
    ev.bounds = json!({"flag_words": 65536, "pdu_lengths": "0..=244", "ext_strings": "all of length 1 and 2", "block_sequences": seqs.len(), "paths": ["Offline probe", "ValidateConfig", "DataExchange+request_diagnostics", "DpScanner"]});
    ev.distinct_outcomes = outcomes.len() as u64;
    ev.required_witnesses = vec!["decoded", "ext_stored", "ext_too_large", "ignored", "scanner_found", "ext_stored_second_round"];
    ev.assumptions.push("blocks of announced length 1 may be yielded empty or treated as malformed (both accepted)".into());
    ev.assumptions.push("the always-one status bit 0x0400 may be stripped from the reported flags".into());
    finish(ev)
}

pub fn replay(v: &Value) {
    let r = &v["replay"];
    let case = Case {
        path: r["path"].as_u64().unwrap() as u8,
        pdu: unhex(r["pdu"].as_str().unwrap()),
        dsap: r["dsap"].as_u64().map(|x| x as u8),
        ssap: r["ssap"].as_u64().map(|x| x as u8),
        buf: r["buf"].as_u64().map(|x| x as usize),
    };
    println!("{case:?}");
    println!("reference blocks: {:?}", if case.pdu.len() > 6 { ref_blocks(&case.pdu[6..], true) } else { vec![] });
    println!("result: {:?}", catch(|| run_case(&case)).map_err(|p| format!("panic {}:{} {}", p.file, p.line, p.msg)));
}
