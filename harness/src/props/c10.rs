//! C10 — the decoder is total, prefix-consistent and never mis-accepts damaged frames (W1).

use crate::engine::*;
use crate::props::c09;
use crate::refcodec as rc;
use profirust::fdl::Telegram;
use rayon::prelude::*;
use serde_json::{json, Value};
use std::sync::atomic::{AtomicU64, Ordering};

/// Verdict of the decoder under test, reduced to comparable data.
#[derive(Clone, Debug, PartialEq, Eq)]
pub enum Verdict {
    NeedMore,
    Reject,
    Accept { frame: rc::RFrame, n: usize, inside: bool },
    Panic(String),
}

pub fn to_rframe(t: &Telegram) -> rc::RFrame {
    match t {
        Telegram::Token(t) => rc::RFrame::Token { da: t.da, sa: t.sa },
        Telegram::ShortConfirmation(_) => rc::RFrame::Sc,
        Telegram::Data(d) => rc::RFrame::Data {
            da: d.h.da,
            sa: d.h.sa,
            dsap: d.h.dsap,
            ssap: d.h.ssap,
            fc: d.h.fc.to_byte(),
            du: d.pdu.to_vec(),
        },
    }
}

pub fn decode_under_test(s: &[u8]) -> Verdict {
    match catch(|| {
        Telegram::deserialize(s).map(|r| {
            r.map(|(t, n)| {
                let inside = match &t {
                    Telegram::Data(d) => {
                        let p = d.pdu.as_ptr() as usize;
                        let b = s.as_ptr() as usize;
                        d.pdu.is_empty() || (p >= b && p + d.pdu.len() <= b + s.len())
                    }
                    _ => true,
                };
                (to_rframe(&t), n, inside)
            })
        })
    }) {
        Err(p) => Verdict::Panic(format!("{}:{} {}", p.file, p.line, p.msg)),
        Ok(None) => Verdict::NeedMore,
        Ok(Some(Err(()))) => Verdict::Reject,
        Ok(Some(Ok((frame, n, inside)))) => Verdict::Accept { frame, n, inside },
    }
}

/// Equality of a decoded telegram with the reference decoding, modulo the reserved bit 7 of response
/// function codes (which the decoder ignores; the statement does not forbid that).
fn same_frame(a: &rc::RFrame, reference: &rc::RFrame) -> bool {
    match (a, reference) {
        (rc::RFrame::Data { da, sa, dsap, ssap, fc, du }, rc::RFrame::Data { da: d2, sa: s2, dsap: ds2, ssap: ss2, fc: f2, du: du2 }) => {
            let fc_eq = if f2 & 0x40 == 0 { fc & 0x7f == f2 & 0x7f } else { fc == f2 };
            da == d2 && sa == s2 && dsap == ds2 && ssap == ss2 && fc_eq && du == du2
        }
        _ => a == reference,
    }
}

/// The clauses that concern a single input. Returns violated clause + detail.
pub fn check_single(s: &[u8]) -> (Verdict, Option<(&'static str, String)>) {
    let v = decode_under_test(s);
    let bad = match &v {
        Verdict::Panic(m) => Some(("panic", m.clone())),
        Verdict::NeedMore => {
            // legal only while the input is shorter than the announced frame length
            // (unknown for fewer than 2 bytes of an SD2 frame)
            let announced = match s.first() {
                None => None,
                Some(&rc::SC) => Some(1),
                Some(&rc::SD4) => Some(3),
                Some(&rc::SD1) => Some(6),
                Some(&rc::SD3) => Some(14),
                Some(&rc::SD2) => s.get(1).map(|le| *le as usize + 6),
                Some(_) => Some(0), // unknown start delimiter: nothing to wait for
            };
            match announced {
                Some(a) if s.len() >= a => Some(("needmore_on_complete_input", format!("asks for more data although {} bytes >= announced length {}", s.len(), a))),
                _ => None,
            }
        }
        Verdict::Reject => None,
        Verdict::Accept { frame, n, inside } => {
            if *n > s.len() || *n == 0 {
                Some(("length_outside_input", format!("reported length {} for {} input bytes", n, s.len())))
            } else if !*inside {
                Some(("payload_outside_input", "payload slice not inside the input".into()))
            } else {
                match rc::decode(&s[..*n]) {
                    rc::RDec::Frame(rf, rn) if rn == *n && same_frame(frame, &rf) => None,
                    rc::RDec::Frame(rf, rn) => Some(("accepts_as_different_telegram", format!("decoded {} (n={}), frame format says {} (n={})", frame.short(), n, rf.short(), rn))),
                    rc::RDec::Invalid(why) => Some(("accepts_invalid_frame", format!("accepted {} although the frame is invalid: {}", frame.short(), why))),
                    rc::RDec::NeedMore => Some(("accepts_incomplete_frame", format!("accepted {} from an incomplete frame", frame.short()))),
                }
            }
        }
    };
    (v, bad)
}

/// Prefix consistency between a string's verdict and its one-byte-shorter prefix's verdict.
fn prefix_clause(prefix: &Verdict, full: &Verdict) -> Option<String> {
    match prefix {
        Verdict::NeedMore | Verdict::Panic(_) => None,
        decisive => {
            if decisive != full {
                Some(format!("prefix verdict {:?} but extension verdict {:?}", short(decisive), short(full)))
            } else {
                None
            }
        }
    }
}

fn short(v: &Verdict) -> String {
    match v {
        Verdict::Accept { frame, n, .. } => format!("Accept({}, n={})", frame.short(), n),
        o => format!("{:?}", o),
    }
}

fn report(kind: &str, clause: &str, detail: String, s: &[u8]) {
    let shown = if s.len() > 24 { format!("{} .. ({} bytes)", hex(&s[..24]), s.len()) } else { hex(s) };
    ctx().violation(
        format!("c10.{clause}"),
        format!("[{kind}] {detail}; input = {shown}"),
        json!({"kind": "bytes", "hex": hex(s)}),
        s.len() as u64,
    );
}

/// check a string together with its immediate prefix
fn check_with_prefix(kind: &str, s: &[u8], outcomes: &[AtomicU64; 4]) -> Verdict {
    let (v, bad) = check_single(s);
    outcomes[match &v {
        Verdict::NeedMore => 0,
        Verdict::Reject => 1,
        Verdict::Accept { .. } => 2,
        Verdict::Panic(_) => 3,
    }]
    .fetch_add(1, Ordering::Relaxed);
    if let Some((cl, d)) = bad {
        report(kind, cl, d, s);
    }
    if !s.is_empty() {
        let pv = decode_under_test(&s[..s.len() - 1]);
        if let Some(d) = prefix_clause(&pv, &v) {
            report(kind, "prefix_inconsistent", d, s);
        }
    }
    v
}

pub fn valid_frame_set(tier: Tier) -> Vec<(rc::RFrame, Vec<u8>)> {
    let fcs = c09::all_function_codes();
    let addrs: [u8; 3] = [0, 2, 127];
    let saps: [(Option<u8>, Option<u8>); 4] = [(None, None), (Some(62), None), (None, Some(60)), (Some(62), Some(60))];
    let fc_idx: Vec<usize> = match tier {
        Tier::Quick => vec![0, 5, 30, 33, 38, 45, 48, 56, 70, 83],
        Tier::Thorough => (0..84).collect(),
    };
    let mut out = vec![(rc::RFrame::Sc, vec![rc::SC])];
    for da in addrs {
        for sa in addrs {
            for (dsap, ssap) in saps {
                let nsap = dsap.is_some() as usize + ssap.is_some() as usize;
                let lens: Vec<usize> = match tier {
                    Tier::Quick => vec![0, 1, 8 - nsap, 9, 60],
                    Tier::Thorough => vec![0, 1, 2, 8 - nsap, 9, 10, 100, 246 - nsap],
                };
                for fi in &fc_idx {
                    for len in &lens {
                        for pat in [2usize, 3] {
                            if *len == 0 && pat == 3 {
                                continue;
                            }
                            if tier == Tier::Thorough && *len > 100 && (*fi % 7 != 0 || pat == 3) {
                                continue;
                            }
                            let f = rc::RFrame::Data { da, sa, dsap, ssap, fc: fcs[*fi].1, du: c09::pattern(pat, *len) };
                            let b = rc::encode(&f);
                            out.push((f, b));
                        }
                    }
                }
            }
        }
    }
    out
}

pub fn run(tier: Tier) -> ! {
    let c = ctx();
    let outcomes = [AtomicU64::new(0), AtomicU64::new(0), AtomicU64::new(0), AtomicU64::new(0)];
    let evals = AtomicU64::new(0);
    let nontrivial = AtomicU64::new(0);

    // (i) all byte strings of length <= 3
    (0..=255u8).into_par_iter().for_each(|b0| {
        check_with_prefix("all<=3", &[], &outcomes);
        check_with_prefix("all<=3", &[b0], &outcomes);
        for b1 in 0..=255u8 {
            check_with_prefix("all<=3", &[b0, b1], &outcomes);
            for b2 in 0..=255u8 {
                check_with_prefix("all<=3", &[b0, b1, b2], &outcomes);
            }
        }
        evals.fetch_add(2 + 256 + 65536, Ordering::Relaxed);
        nontrivial.fetch_add(1 + 256 + 65536, Ordering::Relaxed);
    });

    // (ii) all strings over the delimiter alphabet up to length 6 / 7
    const B: [u8; 14] = [0x10, 0x68, 0xA2, 0xDC, 0xE5, 0x16, 0x00, 0x03, 0x04, 0x05, 0x08, 0x49, 0x80, 0xFF];
    let maxlen = tier.pick(6, 7);
    let firsts: Vec<(u8, u8)> = B.iter().flat_map(|a| B.iter().map(move |b| (*a, *b))).collect();
    firsts.par_iter().for_each(|(a, b)| {
        // enumerate all suffixes by counting in base 14
        let mut s = vec![*a, *b];
        fn rec(s: &mut Vec<u8>, maxlen: usize, outcomes: &[AtomicU64; 4], n: &mut u64) {
            if s.len() >= 4 {
                check_with_prefix("alphabet", s, outcomes);
                *n += 1;
            }
            if s.len() == maxlen {
                return;
            }
            for x in B {
                s.push(x);
                rec(s, maxlen, outcomes, n);
                s.pop();
            }
        }
        let mut n = 0;
        rec(&mut s, maxlen, &outcomes, &mut n);
        evals.fetch_add(n, Ordering::Relaxed);
        nontrivial.fetch_add(n, Ordering::Relaxed);
    });

    // (iii) all SD2 headers 68 LE LEr X followed by structured bodies
    let xs: Vec<u8> = match tier {
        Tier::Quick => vec![0x68, 0x00, 0x10, 0xA2, 0xDC, 0xE5, 0x16, 0x69, 0x6A, 0x60, 0xE8, 0x28, 0xFF],
        Tier::Thorough => (0..=255).collect(),
    };
    let accepted_sd2 = AtomicU64::new(0);
    (0..=255u8).into_par_iter().for_each(|le| {
        for ler in 0..=255u8 {
            for x in &xs {
                // body of the announced length (using LE), three variants
                let blen = le as usize;
                let mut body: Vec<u8> = Vec::with_capacity(blen);
                if blen >= 1 {
                    body.push(0x03);
                }
                if blen >= 2 {
                    body.push(0x02);
                }
                if blen >= 3 {
                    body.push(0x08);
                }
                for i in 3..blen {
                    body.push((i as u8).wrapping_mul(5));
                }
                let fcs = body.iter().fold(0u8, |a, b| a.wrapping_add(*b));
                for variant in 0..3 {
                    let mut s = vec![0x68, le, ler, *x];
                    s.extend_from_slice(&body);
                    s.push(if variant == 1 { fcs.wrapping_add(1) } else { fcs });
                    s.push(if variant == 2 { 0x17 } else { 0x16 });
                    let v = check_with_prefix("sd2-header", &s, &outcomes);
                    if matches!(v, Verdict::Accept { .. }) {
                        accepted_sd2.fetch_add(1, Ordering::Relaxed);
                    }
                    // one byte more, and the prefixes around the header
                    let mut s2 = s.clone();
                    s2.push(0x00);
                    check_with_prefix("sd2-header", &s2, &outcomes);
                    for l in 3..=7.min(s.len()) {
                        check_with_prefix("sd2-header", &s[..l], &outcomes);
                    }
                    evals.fetch_add(7, Ordering::Relaxed);
                    nontrivial.fetch_add(1, Ordering::Relaxed);
                }
            }
        }
    });
    c.witness_n("sd2_frames_accepted", accepted_sd2.load(Ordering::Relaxed));

    // (iv) every valid frame with every single-byte substitution at every position
    let frames = valid_frame_set(tier);
    let nframes = frames.len();
    let mut_accepts_first = AtomicU64::new(0);
    frames.par_iter().for_each(|(f, bytes)| {
        if c.should_stop() {
            return;
        }
        // the unmodified frame must be accepted as itself (sanity of the frame set)
        match decode_under_test(bytes) {
            Verdict::Accept { frame, n, .. } if n == bytes.len() && same_frame(&frame, f) => {}
            o => report("valid-frame", "valid_frame_not_accepted", format!("verdict {}", short(&o)), bytes),
        }
        let mut m = bytes.clone();
        let mut n = 0u64;
        for pos in 0..bytes.len() {
            let orig = bytes[pos];
            for val in 0..=255u8 {
                if val == orig {
                    continue;
                }
                m[pos] = val;
                n += 1;
                let (v, bad) = check_single(&m);
                if let Some((cl, d)) = bad {
                    report("substitution", cl, format!("{d} (byte {pos} {orig:#04x}->{val:#04x})"), &m);
                }
                if let Verdict::Accept { frame, .. } = &v {
                    let single_bit = (val ^ orig).count_ones() == 1;
                    if pos > 0 || single_bit {
                        report(
                            "substitution",
                            if single_bit { "accepts_single_bit_error" } else { "accepts_single_byte_error" },
                            format!("frame {} with byte {pos} {orig:#04x}->{val:#04x} decoded as {}", f.short(), frame.short()),
                            &m,
                        );
                    } else {
                        mut_accepts_first.fetch_add(1, Ordering::Relaxed);
                    }
                }
                // prefix consistency at the cut behind the substituted byte and at the end
                if val % 16 == pos as u8 % 16 {
                    let pv = decode_under_test(&m[..pos + 1]);
                    if let Some(d) = prefix_clause(&pv, &v) {
                        report("substitution", "prefix_inconsistent", d, &m);
                    }
                    let pv = decode_under_test(&m[..m.len() - 1]);
                    if let Some(d) = prefix_clause(&pv, &v) {
                        report("substitution", "prefix_inconsistent", d, &m);
                    }
                }
            }
            m[pos] = orig;
        }
        evals.fetch_add(n, Ordering::Relaxed);
        nontrivial.fetch_add(n, Ordering::Relaxed);
    });
    c.witness_n("first_byte_substitutions_that_form_another_legal_frame", mut_accepts_first.load(Ordering::Relaxed));
    c.witness_n("verdict_needmore", outcomes[0].load(Ordering::Relaxed));
    c.witness_n("verdict_reject", outcomes[1].load(Ordering::Relaxed));
    c.witness_n("verdict_accept", outcomes[2].load(Ordering::Relaxed));

    let mut ev = Evidence::default();
    ev.level = "exploration";
    ev.evaluations = evals.load(Ordering::Relaxed);
    ev.distinct_nontrivial = nontrivial.load(Ordering::Relaxed);
    ev.rule = "(i) all byte strings of length <=3; (ii) all strings of length 4..=L over a 14-byte delimiter alphabet; (iii) all SD2 headers 68 LE LEr X with bodies of the announced length in 3 variants (correct, FCS+1, ED wrong), each also one byte longer and cut at 3..7; (iv) every frame of the valid-frame set with all 255 substitutions at every position. Each string is generated once; all are counted non-trivial except the empty string.".into();
    ev.samples = vec![json!({"hex":"68 05 05 00 03 02 08 0f 14 30 16"}), json!({"hex":"dc 03"}), json!({"hex":"10 02 7f 49 ca 16"})];
    ev.exhaustive = true;
    ev.bounds = json!({"all_strings_len": 3, "alphabet_len": maxlen, "sd2_second_delimiter_values": xs.len(), "valid_frames_mutated": nframes});
    ev.distinct_outcomes = outcomes.iter().filter(|o| o.load(Ordering::Relaxed) > 0).count() as u64;
    ev.required_witnesses = vec!["verdict_needmore", "verdict_reject", "verdict_accept", "sd2_frames_accepted"];
    ev.assumptions.push("NeedMore is judged by length only: legal iff the input is shorter than the announced frame length".into());
    ev.assumptions.push("a substitution of the first byte by another legal start delimiter is judged by the reference decoder for the new delimiter (documented reading)".into());
    finish(ev)
}

pub fn replay(v: &Value) {
    let s = unhex(v["replay"]["hex"].as_str().unwrap());
    println!("input: {}", hex(&s));
    println!("decoder under test : {:?}", decode_under_test(&s));
    println!("reference decoder  : {:?}", rc::decode(&s));
    println!("clauses            : {:?}", check_single(&s).1);
    for l in 0..s.len() {
        println!("  prefix {:3}: {}", l, short(&decode_under_test(&s[..l])));
    }
}
