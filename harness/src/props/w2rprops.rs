//! Property runners over the reactive world W2R: C12 (GAP maintenance + truthful status replies) and
//! C15 (applications get matched replies, one at a time, round-robin).

use crate::engine::*;
use crate::props::w4props::Totals;
use crate::refcodec as rc;
use crate::w2::{Gap, Sym, W2Cfg, W2Mon, W2World, WaitLen};
use crate::w2r::*;
use rayon::prelude::*;
use serde_json::{json, Value};
use std::sync::Arc;

pub fn explore_r(cfgs: Vec<(String, RCfg, usize, f64, u64)>, t: &mut Totals) {
    // worlds are small: run them in parallel, each with a sequential-ish BFS
    let results: Vec<(String, BfsStats, Arc<RCfg>)> = cfgs
        .into_par_iter()
        .map(|(label, cfg, depth, secs, max_states)| {
            let cfg = Arc::new(cfg);
            let init = RWorld::init(&cfg);
            if init.s.dead {
                return (label, BfsStats::default(), cfg);
            }
            let st = bfs(vec![init], &BfsOpts { max_depth: depth, max_states, max_secs: secs }, |_, _| {});
            (label, st, cfg)
        })
        .collect();
    for (label, st, cfg) in results {
        let c2 = cfg.clone();
        let v = validate_paths(move |_| RWorld::init(&c2), &st.sample_paths.iter().rev().take(12).cloned().collect::<Vec<_>>());
        t.states += st.states;
        t.transitions += st.transitions;
        t.validated += v;
        t.worlds += 1;
        if st.closed {
            t.closed_worlds += 1;
        }
        if let Some(c) = &st.capped {
            t.caps.push(format!("{label}: {c}"));
        }
        if t.per_world.len() < 40 {
            t.per_world.push(json!({"world": label, "states": st.states, "transitions": st.transitions, "depth_completed": st.depth_completed, "closed": st.closed}));
        }
        if t.samples.len() < 5 {
            if let Some((p, _)) = st.sample_paths.last() {
                t.samples.push(json!({"world": label, "answers": &p[1..]}));
            }
        }
    }
}

pub fn run_c12(tier: Tier) -> ! {
    let mut t = Totals::default();
    // (1) GAP maintenance against the reactive ring environment
    let mut cfgs = vec![];
    let hsas: Vec<u8> = tier.pick((2..=7).collect(), (2..=10).collect());
    for hsa in hsas {
        for ts in 0..hsa {
            let others: Vec<u8> = (0..hsa).filter(|a| *a != ts).collect();
            let mut member_sets: Vec<Vec<u8>> = vec![vec![]];
            for a in &others {
                member_sets.push(vec![*a]);
            }
            for i in 0..others.len() {
                for j in i + 1..others.len() {
                    if tier == Tier::Thorough || (others[i] + others[j]) % 3 == 0 {
                        member_sets.push(vec![others[i], others[j]]);
                    }
                }
            }
            for members0 in member_sets {
                for g in tier.pick(vec![1u8, 2], vec![1, 2, 5]) {
                    if g > 1 && members0.len() == 2 && tier == Tier::Quick {
                        continue;
                    }
                    let max_visits = 2 * (g as u32 + hsa as u32) + 6;
                    let cfg = RCfg { ts, hsa, gap_factor: g, slot_bits: 100, ttr: None, period_div: if (ts + hsa) % 2 == 0 { 8 } else { 4 }, members0: members0.clone(), scripts: vec![], multi: false, mon: RMon::C12, max_visits, join_budget: tier.pick(1, 2), origin_us: 0, baud: 1 };
                    cfgs.push((format!("TS{ts} HSA{hsa} G{g} members{members0:?}"), cfg, 60, tier.pick(60.0, 3000.0), tier.pick(30_000, 400_000)));
                }
            }
        }
    }
    // high addresses: bit-set word boundary 63/64, the top of the address space, long GAPs
    {
        let cases: Vec<(u8, u8, Vec<u8>)> = tier.pick(
            vec![(64, 67, vec![66]), (63, 66, vec![0, 64]), (125, 126, vec![0]), (120, 126, vec![124]), (60, 126, vec![68]), (124, 126, vec![2])],
            vec![(64, 67, vec![66]), (60, 126, vec![68]), (124, 126, vec![2]), (64, 67, vec![63]), (63, 66, vec![0, 64]), (125, 126, vec![0]), (120, 126, vec![124]), (0, 126, vec![125]), (64, 67, vec![]), (65, 67, vec![63, 64]), (124, 126, vec![0, 125]), (62, 126, vec![64, 100]), (100, 126, vec![])],
        );
        for (ts, hsa, members0) in cases {
            for g in tier.pick(vec![1u8], vec![1, 2]) {
                let gap_len = hsa as u32;
                let max_visits = if hsa > 100 { 2 * (g as u32) + gap_len + 20 } else { 2 * (g as u32 + 8) + 6 };
                let cfg = RCfg { ts, hsa, gap_factor: g, slot_bits: 100, ttr: None, period_div: 4, members0: members0.clone(), scripts: vec![], multi: false, mon: RMon::C12, max_visits, join_budget: 1, origin_us: 0, baud: 1 };
                cfgs.push((format!("high TS{ts} HSA{hsa} G{g} members{members0:?}"), cfg, if hsa > 100 { 300 } else { 60 }, tier.pick(60.0, 3000.0), tier.pick(30_000, 400_000)));
            }
        }
    }
    if tier == Tier::Thorough {
        for ts in [0u8, 62, 125] {
            let cfg = RCfg { ts, hsa: 126, gap_factor: 1, slot_bits: 100, ttr: None, period_div: 4, members0: vec![], scripts: vec![], multi: false, mon: RMon::C12, max_visits: 140, join_budget: 1, origin_us: 0, baud: 1 };
            cfgs.push((format!("TS{ts} HSA126"), cfg, 400, 200.0, 300_000));
        }
    }
    // baud rates: the HSA-4 and HSA-5 worlds once more at 9600 baud, 1.5 and 12 Mbit/s (minimum slot time of the rate)
    {
        let base: Vec<_> = cfgs.iter().filter(|(_, c, ..)| (c.hsa == 4 || (c.hsa == 5 && tier == Tier::Thorough)) && c.gap_factor == 1 && c.members0.len() <= 1).cloned().collect();
        for (label, cfg, depth, secs, cap) in base {
            for baud in [0u8, 3, 4] {
                let mut c = cfg.clone();
                c.baud = baud;
                c.slot_bits = c.slot_bits.max(crate::w2::MIN_SLOT[baud as usize]);
                cfgs.push((format!("{label} baud#{baud}"), c, depth, secs, cap));
            }
        }
    }
    let n_r = cfgs.len();
    explore_r(cfgs, &mut t);

    // (2) truthful status replies: the station as listener / ring member against tokens and status requests
    let mut w2cfgs = vec![];
    for (ts, ring) in [(3u8, vec![1u8, 5]), (0, vec![2, 5]), (6, vec![1, 4])] {
        let ps = ring.iter().rev().find(|a| **a < ts).copied().unwrap_or(*ring.last().unwrap());
        let other = ring.iter().find(|a| **a != ps).copied().unwrap();
        let stranger = (0..7u8).find(|a| *a != ts && !ring.contains(a)).unwrap();
        let mut alphabet = vec![Sym::Wait(WaitLen::HalfSlot), Sym::Wait(WaitLen::TimeoutPlus)];
        // consistent rotation of the ring, inconsistent passes, requests from predecessor / others
        let mut r = ring.clone();
        r.sort();
        for i in 0..r.len() {
            alphabet.push(Sym::Tel(rc::token(r[(i + 1) % r.len()], r[i]), Gap::G33));
        }
        alphabet.push(Sym::Tel(rc::token(stranger, ps), Gap::G33));
        alphabet.push(Sym::Tel(rc::token(ps, stranger), Gap::G33));
        alphabet.push(Sym::Tel(rc::token(ts, ps), Gap::G33));
        alphabet.push(Sym::Tel(rc::status_req(ts, ps), Gap::G33));
        alphabet.push(Sym::Tel(rc::status_req(ts, other), Gap::G33));
        alphabet.push(Sym::Tel(rc::status_req(ts, stranger), Gap::G33));
        alphabet.push(Sym::Tel(rc::status_req(other, ps), Gap::G33));
        alphabet.push(Sym::Tel(rc::status_req(127, ps), Gap::G33));
        // coarse poll schedule: the station finds a status request and a further telegram behind it in one
        // poll (the requester has moved on: no reply any more), or a request as the last telegram
        let e = |f: rc::RFrame| rc::encode(&f);
        alphabet.push(Sym::Burst(vec![e(rc::status_req(ts, ps)), e(rc::token(other, ps))]));
        alphabet.push(Sym::Burst(vec![e(rc::status_req(ts, other)), e(rc::status_req(ps, other))]));
        alphabet.push(Sym::Burst(vec![e(rc::token(ps, other)), e(rc::status_req(ts, ps))]));
        for div in tier.pick(vec![8i64], vec![8, 4]) {
            let cfg = W2Cfg { ts, hsa: 7, gap_factor: 1, baud: 1, slot_bits: 100, ttr: Some(300), period_div: div, alphabet: alphabet.clone(), prefix: vec![], mon: W2Mon::C12R, apps: 0 };
            w2cfgs.push((format!("replies TS{ts} P=Tsl/{div}"), cfg, tier.pick(7usize, 11), tier.pick(120.0, 6000.0), tier.pick(600_000u64, 5_000_000)));
            if div == 8 {
                // the same alphabet from the situation "in the ring" (admitted through a GAP poll, token received)
                let cfg = W2Cfg { ts, hsa: 7, gap_factor: 1, baud: 1, slot_bits: 100, ttr: Some(300), period_div: div, alphabet: alphabet.clone(), prefix: crate::props::w2props::prefix_for(2, ts, &ring), mon: W2Mon::C12R, apps: 0 };
                w2cfgs.push((format!("replies in-ring TS{ts} P=Tsl/{div}"), cfg, tier.pick(5usize, 7), tier.pick(120.0, 6000.0), tier.pick(600_000u64, 5_000_000)));
            }
        }
    }
    // (3) function-code sweep: every one of the 256 function-code bytes in a telegram addressed to the
    // station (without data and SAPs, and with both), from its predecessor and from a stranger, to the
    // listening station and to the ring member, singly and in pairs. Only the FDL status request is
    // answered "and no others" — in particular not responses whose status nibble happens to equal the
    // request code 9 (found by a seeded change).
    for (ts, ring) in tier.pick(vec![(3u8, vec![1u8, 5])], vec![(3u8, vec![1u8, 5]), (0, vec![2, 5])]) {
        let ps = ring.iter().rev().find(|a| **a < ts).copied().unwrap_or(*ring.last().unwrap());
        let stranger = (0..7u8).find(|a| *a != ts && !ring.contains(a)).unwrap();
        for (k, from) in [ps, stranger].into_iter().enumerate() {
            // the waits give the station the time to answer (wrongly) before the next telegram
            let mut alphabet = vec![Sym::Wait(WaitLen::HalfSlot), Sym::Wait(WaitLen::SlotPlus)];
            for fc in 0..=255u8 {
                alphabet.push(Sym::Tel(rc::RFrame::Data { da: ts, sa: from, dsap: None, ssap: None, fc, du: vec![] }, Gap::G33));
                alphabet.push(Sym::Tel(rc::RFrame::Data { da: ts, sa: from, dsap: Some(60), ssap: Some(62), fc, du: vec![1, 2] }, Gap::G33));
            }
            for in_ring in [false, true] {
                if tier == Tier::Quick && k == 1 && in_ring {
                    continue;
                }
                let prefix = if in_ring { crate::props::w2props::prefix_for(2, ts, &ring) } else { vec![] };
                let cfg = W2Cfg { ts, hsa: 7, gap_factor: 1, baud: 1, slot_bits: 100, ttr: Some(300), period_div: 8, alphabet: alphabet.clone(), prefix, mon: W2Mon::C12R, apps: 0 };
                w2cfgs.push((format!("fc sweep TS{ts} from #{from} in_ring={in_ring}"), cfg, tier.pick(2usize, 3), tier.pick(120.0, 6000.0), tier.pick(600_000u64, 5_000_000)));
            }
        }
    }
    for (label, cfg, depth, secs, max_states) in w2cfgs {
        let cfg = Arc::new(cfg);
        let st = bfs(vec![W2World::init(&cfg)], &BfsOpts { max_depth: depth, max_states, max_secs: secs }, |_, _| {});
        let c2 = cfg.clone();
        t.validated += validate_paths(move |_| W2World::init(&c2), &st.sample_paths);
        t.states += st.states;
        t.transitions += st.transitions;
        t.worlds += 1;
        if let Some(c) = &st.capped {
            t.caps.push(format!("{label}: {c}"));
        }
        t.per_world.push(json!({"world": label, "states": st.states, "transitions": st.transitions, "depth_completed": st.depth_completed, "closed": st.closed}));
    }
    finish_r(t, "C12", tier, json!({"reactive_worlds": n_r, "hsa": tier.pick("2..=7", "2..=10 and 126"), "gap_factors": tier.pick(vec![1, 2], vec![1, 2, 5]), "join_budget": tier.pick(1, 2)}), vec!["c12_reclaim_after_token_loss", "c12_successor_learnt_from_witnessed_pass", "c12_gap_poll", "c12_post_claim_scan_complete", "c12_new_successor_gets_token", "c12_new_sweep_after_pause", "c12_reply_not_ready", "c12_reply_ready", "c12_reply_in_ring"])
}

fn finish_r(t: Totals, prop: &str, tier: Tier, bounds: Value, witnesses: Vec<&'static str>) -> ! {
    let mut ev = Evidence::default();
    ev.level = "model_checking";
    ev.states = t.states;
    ev.transitions = t.transitions;
    ev.traces_validated = t.validated;
    ev.evaluations = t.transitions;
    ev.distinct_nontrivial = t.states;
    ev.rule = format!("{prop}: BFS over the states of a real FdlActiveStation + BusSim + reactive environment (ring members, polled and addressed peers) + monitor automaton; one transition = the environment's answer to one request of the station, after which the world runs (station polled on a fixed grid) to the next request; deduplicated on a time-normalised fingerprint");
    ev.samples = t.samples.clone();
    ev.exhaustive = t.caps.is_empty();
    ev.caps_hit = t.caps.clone();
    ev.bounds = bounds;
    ev.distinct_outcomes = t.states;
    ev.extra.insert("worlds".into(), json!(t.worlds));
    ev.extra.insert("worlds_closed".into(), json!(t.closed_worlds));
    ev.extra.insert("per_world_first_40".into(), json!(t.per_world));
    ev.extra.insert("tier".into(), json!(tier.name()));
    ev.required_witnesses = witnesses;
    finish(ev)
}

pub fn all_scripts(max_len: usize, peer: u8) -> Vec<Vec<Step>> {
    all_scripts_over(&[Step::Decline, Step::Srd(peer), Step::Sdn(127), Step::Status(peer)], max_len)
}

pub fn all_scripts_over(alpha: &[Step], max_len: usize) -> Vec<Vec<Step>> {
    let alpha: Vec<Step> = alpha.to_vec();
    let mut out: Vec<Vec<Step>> = vec![vec![]];
    let mut cur: Vec<Vec<Step>> = vec![vec![]];
    for _ in 0..max_len {
        let mut next = vec![];
        for s in &cur {
            for a in alpha.iter().cloned() {
                let mut n = s.clone();
                n.push(a);
                next.push(n);
            }
        }
        out.extend(next.iter().cloned());
        cur = next;
    }
    out
}

pub fn run_c15(tier: Tier) -> ! {
    let mut t = Totals::default();
    let mut cfgs = vec![];
    let peer = 40u8;
    let ring_variants: Vec<(u8, Vec<u8>)> = vec![(2, vec![]), (2, vec![5]), (3, vec![1, 5])];
    let depth = tier.pick(12usize, 16);
    let wcap = tier.pick(120.0, 6000.0);
    let visits: u32 = tier.pick(6, 9);
    let ttrs: Vec<Option<u32>> = tier.pick(vec![None, Some(256u32)], vec![None, Some(256), Some(1000)]);
    let divs: Vec<i64> = tier.pick(vec![8], vec![8, 3]);
    for (ts, members0) in ring_variants {
        for &period_div in &divs {
            // one application: all scripts up to length 2 (thorough 4)
            for s in all_scripts(tier.pick(2, 4), peer) {
                if s.is_empty() {
                    continue;
                }
                for &ttr in &ttrs {
                    if ttr.is_some() && (s.len() < 2 || !members0.is_empty()) && tier == Tier::Quick {
                        continue;
                    }
                    let cfg = RCfg { ts, hsa: 6, gap_factor: 10, slot_bits: 100, ttr, period_div, members0: members0.clone(), scripts: vec![s.clone()], multi: true, mon: RMon::C15, max_visits: visits, join_budget: 0, origin_us: 0, baud: 1 };
                    cfgs.push((format!("1app {:?} ring{:?} ttr{:?} div{period_div}", s, members0, ttr), cfg, depth, wcap, 400_000));
                }
            }
            // two applications: all script pairs up to length 2 (thorough: one of the two up to length 3)
            let s2 = all_scripts(2, peer);
            let s3 = all_scripts(tier.pick(2, 3), peer);
            let mut pairs: Vec<(Vec<Step>, Vec<Step>)> = vec![];
            for a in &s3 {
                for b in &s2 {
                    pairs.push((a.clone(), b.clone()));
                    if a.len() > 2 {
                        pairs.push((b.clone(), a.clone()));
                    }
                }
            }
            for (a, b) in &pairs {
                if a.is_empty() && b.is_empty() {
                    continue;
                }
                if tier == Tier::Quick && !members0.is_empty() && (a.len() + b.len()) % 2 == 1 {
                    continue;
                }
                for &ttr in &ttrs {
                    // with the minimum target rotation time the token is always late: only the one
                    // high-priority message cycle per visit runs
                    if ttr.is_some() && tier == Tier::Quick && (a.len() + b.len()) < 3 {
                        continue;
                    }
                    if period_div != 8 && (a.len() > 2 || b.len() > 2) {
                        continue;
                    }
                    let cfg = RCfg { ts, hsa: 6, gap_factor: 10, slot_bits: 100, ttr, period_div, members0: members0.clone(), scripts: vec![a.clone(), b.clone()], multi: true, mon: RMon::C15, max_visits: if ttr.is_some() { visits + 2 } else { visits }, join_budget: 0, origin_us: 0, baud: 1 };
                    cfgs.push((format!("2apps {:?}/{:?} ring{:?} ttr{:?} div{period_div}", a, b, members0, ttr), cfg, depth, wcap, 400_000));
                }
            }
            // three applications: scripts up to length 1 (thorough: also one of them of length 2, and the
            // always-late token)
            let s1 = all_scripts(1, peer);
            let mut triples: Vec<Vec<Vec<Step>>> = vec![];
            for a in &s1 {
                for b in &s1 {
                    for c in &s1 {
                        triples.push(vec![a.clone(), b.clone(), c.clone()]);
                    }
                }
            }
            if tier == Tier::Thorough && period_div == 8 {
                for l in s2.iter().filter(|x| x.len() == 2) {
                    for b in &s1 {
                        for c in &s1 {
                            triples.push(vec![l.clone(), b.clone(), c.clone()]);
                            triples.push(vec![b.clone(), l.clone(), c.clone()]);
                            triples.push(vec![b.clone(), c.clone(), l.clone()]);
                        }
                    }
                }
            }
            for tr in &triples {
                for &ttr in &ttrs {
                    if ttr.is_some() && tier == Tier::Quick {
                        continue;
                    }
                    let cfg = RCfg { ts, hsa: 6, gap_factor: 10, slot_bits: 100, ttr, period_div, members0: members0.clone(), scripts: tr.clone(), multi: true, mon: RMon::C15, max_visits: visits - 1, join_budget: 0, origin_us: 0, baud: 1 };
                    cfgs.push((format!("3apps ring{:?} ttr{:?}", members0, ttr), cfg, depth - 2, wcap, 400_000));
                }
            }
            // four applications (thorough, station alone or with one peer): scripts up to length 1
            if tier == Tier::Thorough && period_div == 8 && members0.len() <= 1 {
                for a in &s1 {
                    for b in &s1 {
                        for c in &s1 {
                            for d in &s1 {
                                let cfg = RCfg { ts, hsa: 6, gap_factor: 10, slot_bits: 100, ttr: None, period_div, members0: members0.clone(), scripts: vec![a.clone(), b.clone(), c.clone(), d.clone()], multi: true, mon: RMon::C15, max_visits: visits - 1, join_budget: 0, origin_us: 0, baud: 1 };
                                cfgs.push((format!("4apps ring{:?}", members0), cfg, depth - 2, wcap, 400_000));
                            }
                        }
                    }
                }
            }
            // unacknowledged requests to ONE station (not the broadcast address): no reply and no
            // time-out may come back for them either (found by a seeded change); one application with
            // scripts up to length 2 (thorough 3), two applications up to length 1 (thorough 2)
            {
                let alpha_u = [Step::Decline, Step::Sdn(peer), Step::Srd(peer), Step::Sdn(if members0.is_empty() { 1 } else { members0[0] })];
                let su = all_scripts_over(&alpha_u, tier.pick(2, 3));
                for s in su.iter().filter(|s| s.iter().any(|x| matches!(x, Step::Sdn(_)))) {
                    for &ttr in &ttrs {
                        if ttr.is_some() && tier == Tier::Quick && !members0.is_empty() {
                            continue;
                        }
                        let cfg = RCfg { ts, hsa: 6, gap_factor: 10, slot_bits: 100, ttr, period_div, members0: members0.clone(), scripts: vec![s.clone()], multi: true, mon: RMon::C15, max_visits: visits, join_budget: 0, origin_us: 0, baud: 1 };
                        cfgs.push((format!("1app unicast-sdn {:?} ring{:?} ttr{:?} div{period_div}", s, members0, ttr), cfg, depth, wcap, 400_000));
                    }
                }
                let sp = all_scripts_over(&alpha_u, tier.pick(1, 2));
                for a in &sp {
                    for b in &sp {
                        if !a.iter().chain(b.iter()).any(|x| matches!(x, Step::Sdn(_))) {
                            continue;
                        }
                        let cfg = RCfg { ts, hsa: 6, gap_factor: 10, slot_bits: 100, ttr: None, period_div, members0: members0.clone(), scripts: vec![a.clone(), b.clone()], multi: true, mon: RMon::C15, max_visits: visits, join_budget: 0, origin_us: 0, baud: 1 };
                        cfgs.push((format!("2apps unicast-sdn {:?}/{:?} ring{:?} div{period_div}", a, b, members0), cfg, depth, wcap, 400_000));
                    }
                }
            }
            // zero applications through poll_multi
            let cfg = RCfg { ts, hsa: 6, gap_factor: 10, slot_bits: 100, ttr: None, period_div, members0: members0.clone(), scripts: vec![], multi: true, mon: RMon::C15, max_visits: 4, join_budget: 0, origin_us: 0, baud: 1 };
            cfgs.push((format!("0apps ring{:?}", members0), cfg, 6, 10.0, 10_000));
        }
    }
    // clock origins: the one- and two-application worlds with an explicit TTR once more with the station's
    // clock an hour below zero, about to cross zero, about to cross 2^32 microseconds, after 30 days
    {
        let base: Vec<_> = cfgs.iter().filter(|(l, c, ..)| c.ttr.is_some() && c.period_div == 8 && c.scripts.len() <= 2 && c.scripts.iter().map(|s| s.len()).sum::<usize>() >= 2 && (tier == Tier::Thorough || (c.members0.len() <= 1 && l.len() % 3 == 0))).cloned().collect();
        for (label, cfg, depth, secs, cap) in base {
            for origin in [-3_600_000_000i64, -30_000, (1i64 << 32) - 30_000, 30 * 86_400 * 1_000_000] {
                let mut c = cfg.clone();
                c.origin_us = origin;
                cfgs.push((format!("{label} clock origin {origin}us"), c, depth, secs, cap));
            }
        }
    }
    // baud rates: 9600 baud, 1.5 and 12 Mbit/s (bit times below a microsecond: min Tsdr rounds to 0 us) at the
    // minimum slot time of the rate, on the same selection of worlds
    {
        let base: Vec<_> = cfgs.iter().filter(|(l, c, ..)| c.origin_us == 0 && c.period_div == 8 && c.scripts.len() <= 2 && c.scripts.iter().map(|s| s.len()).sum::<usize>() >= 2 && (tier == Tier::Thorough || (c.members0.len() <= 1 && l.len() % 5 == 0))).cloned().collect();
        for (label, cfg, depth, secs, cap) in base {
            for baud in [0u8, 3, 4] {
                let mut c = cfg.clone();
                c.baud = baud;
                c.slot_bits = c.slot_bits.max(crate::w2::MIN_SLOT[baud as usize]);
                cfgs.push((format!("{label} baud#{baud}"), c, depth, secs, cap));
            }
        }
    }
    let n = cfgs.len();
    explore_r(cfgs, &mut t);
    finish_r(t, "C15", tier, json!({"script_application_combinations": n, "peer_behaviours": 8, "rings": ["alone", "two stations", "three stations"], "depth": depth, "token_visits": visits, "target_rotation_times": format!("{:?}", ttrs), "poll_period_divisors": format!("{:?}", divs), "applications": tier.pick("0..3", "0..4")}), vec!["c15_transmit_call", "c15_reply_delivered", "c15_timeout_delivered"])
}

pub fn replay(v: &Value) {
    if v["replay"]["world"] == "w2" {
        crate::w2::replay(v);
    } else {
        crate::w2r::replay(v);
    }
}
