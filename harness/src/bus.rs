//! BusSim — the harness PHY: a byte-accurate shared half-duplex bus with exact timing,
//! a transmission trace and fault injection. Implements `ProfibusPhy` through `BusPort`.
//!
//! Time base: instants are integer microseconds as in the stack. Byte boundaries are computed
//! without rounding in the scaled unit (µs · baud), in which one bit lasts 1_000_000 units.

use profirust::phy::ProfibusPhy;
use profirust::time::Instant;

pub const BIT: i64 = 1_000_000;

#[derive(Clone, Debug, PartialEq, Eq)]
pub enum Fault {
    /// nothing reaches the receivers
    Drop,
    /// only the first n bytes reach the receivers
    Truncate(usize),
    /// bit `bit` of byte `byte` is inverted
    Flip { byte: usize, bit: u8 },
    /// every byte is replaced by garbage
    Garble,
}

#[derive(Clone, Debug)]
struct SByte {
    done: i64, // scaled completion time
    val: u8,
    sender: u8,
}

#[derive(Clone, Debug, Default)]
struct Port {
    cursor: usize, // absolute index into the stream
    rx: Vec<u8>,
    tx_end: i64, // scaled end of own last transmission
    /// the last few own transmissions (scaled start, end): a PHY that is deaf while it transmits loses
    /// every byte that overlaps one of them
    tx_recent: Vec<(i64, i64)>,
}

#[derive(Clone, Debug)]
pub struct Tx {
    pub idx: usize,
    pub sender: u8,
    pub start_us: i64,
    pub start: i64, // scaled
    pub end: i64,   // scaled
    pub bytes: Vec<u8>,
    /// another transmission was still in progress when this one started
    pub overlaps_prev: bool,
    pub fault: Option<Fault>,
}

#[derive(Clone, Debug)]
pub struct BusSim {
    pub rate: i64,
    stream: Vec<SByte>,
    base: usize,
    ports: Vec<Port>,
    pub trace: Vec<Tx>,
    pub tx_count: usize,
    /// scaled end of the latest transmission on the bus
    pub busy_until: i64,
    pub faults: Vec<(usize, Fault)>,
    /// scaled end of last activity, start of current
    pub last_sender: u8,
    /// PHY model: a station does not receive bytes that overlap one of its own transmissions (receiver
    /// disabled while the driver is enabled). Default false: it receives them corrupted.
    pub deaf_while_transmitting: bool,
    /// the stations' clock reads bus time + this offset (the PHY ports translate back)
    pub origin_us: i64,
}

impl BusSim {
    pub fn new(rate: u64, nports: usize) -> Self {
        BusSim {
            rate: rate as i64,
            stream: vec![],
            base: 0,
            ports: vec![Port::default(); nports],
            trace: vec![],
            tx_count: 0,
            busy_until: i64::MIN / 4,
            faults: vec![],
            last_sender: 255,
            deaf_while_transmitting: false,
            origin_us: 0,
        }
    }

    #[inline]
    pub fn scaled(&self, us: i64) -> i64 {
        us * self.rate
    }
    /// smallest integer µs instant t with scaled(t) >= s
    pub fn us_ceil(&self, s: i64) -> i64 {
        s.div_euclid(self.rate) + if s.rem_euclid(self.rate) != 0 { 1 } else { 0 }
    }
    pub fn bits_us_floor(&self, bits: i64) -> i64 {
        bits * BIT / self.rate
    }

    pub fn port(&mut self, id: u8) -> BusPort<'_> {
        BusPort { bus: self, id }
    }

    pub fn is_transmitting(&self, id: u8, now_us: i64) -> bool {
        self.scaled(now_us) < self.ports[id as usize].tx_end
    }

    pub fn busy(&self, now_us: i64) -> bool {
        self.scaled(now_us) < self.busy_until
    }

    /// End (µs, rounded up) of all activity currently on the bus.
    pub fn quiet_from_us(&self) -> i64 {
        self.us_ceil(self.busy_until)
    }

    pub fn transmit(&mut self, id: u8, now_us: i64, bytes: &[u8]) {
        if bytes.is_empty() {
            return;
        }
        let start = self.scaled(now_us);
        let end = start + bytes.len() as i64 * 11 * BIT;
        let overlaps_prev = start < self.busy_until;
        let idx = self.tx_count;
        self.tx_count += 1;
        let fault = self.faults.iter().find(|(i, _)| *i == idx).map(|(_, f)| f.clone());
        let mut wire: Vec<u8> = bytes.to_vec();
        match &fault {
            Some(Fault::Drop) => wire.clear(),
            Some(Fault::Truncate(n)) => wire.truncate(*n),
            Some(Fault::Flip { byte, bit }) => {
                if let Some(b) = wire.get_mut(*byte) {
                    *b ^= 1 << bit;
                }
            }
            Some(Fault::Garble) => {
                for (i, b) in wire.iter_mut().enumerate() {
                    *b = 0x5A ^ (i as u8).wrapping_mul(31);
                }
            }
            None => {}
        }
        if overlaps_prev {
            // collision: every byte of this transmission that overlaps the one in progress, and the
            // remaining bytes of that one, are corrupted.
            let busy_until = self.busy_until;
            for b in self.stream.iter_mut() {
                if b.done > start {
                    b.val ^= 0xA5;
                }
            }
            for (i, b) in wire.iter_mut().enumerate() {
                let bstart = start + i as i64 * 11 * BIT;
                if bstart < busy_until {
                    *b ^= 0x3C;
                }
            }
        }
        // sorted insert (only positions in the future are touched, no cursor has passed them)
        for (i, b) in wire.iter().enumerate() {
            let done = start + (i as i64 + 1) * 11 * BIT;
            let sb = SByte { done, val: *b, sender: id };
            let mut pos = self.stream.len();
            while pos > 0 && self.stream[pos - 1].done > done {
                pos -= 1;
            }
            self.stream.insert(pos, sb);
        }
        self.ports[id as usize].tx_end = end;
        {
            let p = &mut self.ports[id as usize];
            p.tx_recent.push((start, end));
            if p.tx_recent.len() > 6 {
                p.tx_recent.remove(0);
            }
        }
        self.busy_until = self.busy_until.max(end);
        self.last_sender = id;
        self.trace.push(Tx { idx, sender: id, start_us: now_us, start, end, bytes: bytes.to_vec(), overlaps_prev, fault });
    }

    fn fill_rx(&mut self, id: u8, now_us: i64) {
        let now = self.scaled(now_us);
        let p = &mut self.ports[id as usize];
        while p.cursor - self.base < self.stream.len() {
            let b = &self.stream[p.cursor - self.base];
            if b.done > now {
                break;
            }
            if b.sender != id {
                let bstart = b.done - 11 * BIT;
                let lost = self.deaf_while_transmitting && p.tx_recent.iter().any(|(s, e)| bstart < *e && *s < b.done);
                if !lost {
                    p.rx.push(b.val);
                }
            }
            p.cursor += 1;
        }
    }

    /// Forget everything a port has not consumed yet (used when a station goes online: its receive
    /// buffer starts empty at the current end of the stream).
    pub fn flush_port(&mut self, id: u8, now_us: i64) {
        self.fill_rx(id, now_us);
        self.ports[id as usize].rx.clear();
    }

    pub fn pending(&mut self, id: u8, now_us: i64) -> usize {
        self.fill_rx(id, now_us);
        self.ports[id as usize].rx.len()
    }

    /// A transmitter dies: the bytes of its transmission that are not complete yet never appear.
    pub fn abort_tx(&mut self, id: u8, now_us: i64) {
        let now = self.scaled(now_us);
        self.stream.retain(|b| !(b.sender == id && b.done > now));
        let p = &mut self.ports[id as usize];
        if p.tx_end > now {
            p.tx_end = now;
        }
        for iv in p.tx_recent.iter_mut() {
            if iv.1 > now {
                iv.1 = now.max(iv.0);
            }
        }
        let latest = self.stream.iter().map(|b| b.done).max().unwrap_or(now);
        self.busy_until = self.busy_until.min(latest.max(now));
    }

    /// Drop stream bytes that every port has consumed.
    pub fn gc(&mut self) {
        let min = self.ports.iter().map(|p| p.cursor).min().unwrap_or(self.base);
        if min > self.base {
            self.stream.drain(..min - self.base);
            self.base = min;
        }
    }

    /// Ports that are never polled (e.g. the environment's own sender id) should not hold back gc.
    pub fn retire_port(&mut self, id: u8) {
        self.ports[id as usize].cursor = usize::MAX / 2;
    }
    pub fn gc_with_retired(&mut self) {
        let min = self.ports.iter().map(|p| p.cursor).filter(|c| *c < usize::MAX / 2).min().unwrap_or(self.base);
        if min > self.base {
            self.stream.drain(..min - self.base);
            self.base = min;
        }
    }

    /// Canonical rendering of everything that can influence the future, relative to `now`.
    pub fn fingerprint_into(&self, now_us: i64, out: &mut Vec<u8>) {
        let now = self.scaled(now_us);
        for (i, p) in self.ports.iter().enumerate() {
            if p.cursor >= usize::MAX / 2 {
                continue;
            }
            out.push(0xF0);
            out.push(i as u8);
            out.extend_from_slice(&(p.rx.len() as u16).to_le_bytes());
            out.extend_from_slice(&p.rx);
            let rel = (p.tx_end - now).max(0);
            out.extend_from_slice(&rel.to_le_bytes());
            if self.deaf_while_transmitting {
                for (s, e) in &p.tx_recent {
                    if *e > now - 12 * BIT {
                        out.extend_from_slice(&(s - now).to_le_bytes());
                        out.extend_from_slice(&(e - now).to_le_bytes());
                    }
                }
            }
            for b in self.stream.iter().skip(p.cursor.saturating_sub(self.base)) {
                if b.sender as usize != i {
                    out.push(b.val);
                    out.extend_from_slice(&(b.done - now).to_le_bytes());
                }
            }
        }
        out.extend_from_slice(&(self.busy_until - now).max(-40 * 1000 * BIT).to_le_bytes());
    }
}

pub struct BusPort<'a> {
    pub bus: &'a mut BusSim,
    pub id: u8,
}

impl ProfibusPhy for BusPort<'_> {
    fn poll_transmission(&mut self, now: Instant) -> bool {
        self.bus.is_transmitting(self.id, now.total_micros() - self.bus.origin_us)
    }

    fn transmit_data<F, R>(&mut self, now: Instant, f: F) -> R
    where
        F: FnOnce(&mut [u8]) -> (usize, R),
    {
        let mut buf = [0u8; 256];
        let (len, r) = f(&mut buf);
        self.bus.transmit(self.id, now.total_micros() - self.bus.origin_us, &buf[..len]);
        r
    }

    fn receive_data<F, R>(&mut self, now: Instant, f: F) -> R
    where
        F: FnOnce(&[u8]) -> (usize, R),
    {
        self.bus.fill_rx(self.id, now.total_micros() - self.bus.origin_us);
        let rx = std::mem::take(&mut self.bus.ports[self.id as usize].rx);
        let (drop, r) = f(&rx);
        assert!(drop <= rx.len(), "PHY user dropped more bytes than were pending");
        let mut rx = rx;
        rx.drain(..drop);
        self.bus.ports[self.id as usize].rx = rx;
        r
    }
}

/// A minimal PHY over an explicit byte queue, for the chunking checks (C16): the test decides which
/// bytes are visible at each call.
#[derive(Clone, Debug, Default)]
pub struct QueuePhy {
    pub visible: Vec<u8>,
    pub sent: Vec<Vec<u8>>,
}

impl ProfibusPhy for QueuePhy {
    fn poll_transmission(&mut self, _now: Instant) -> bool {
        false
    }
    fn transmit_data<F, R>(&mut self, _now: Instant, f: F) -> R
    where
        F: FnOnce(&mut [u8]) -> (usize, R),
    {
        let mut buf = [0u8; 256];
        let (len, r) = f(&mut buf);
        self.sent.push(buf[..len].to_vec());
        r
    }
    fn receive_data<F, R>(&mut self, _now: Instant, f: F) -> R
    where
        F: FnOnce(&[u8]) -> (usize, R),
    {
        let (drop, r) = f(&self.visible);
        assert!(drop <= self.visible.len(), "PHY user dropped more bytes than were pending");
        self.visible.drain(..drop);
        r
    }
}
