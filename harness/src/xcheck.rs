//! Independent cross-check of the in-house explorer with stateright: the same transition systems
//! (closed LAS world; a small single-peripheral DP world) are expressed as `stateright::Model`s whose
//! states carry the same canonical fingerprint; the number of unique states must agree.

use crate::w4::{Act, W4Cfg, W4World};
use crate::engine::World;
use profirust::fdl::VerifTokenRing as TR;
use stateright::{Checker, Model, Property};
use std::hash::{Hash, Hasher};
use std::sync::Arc;

#[derive(Clone, Debug)]
pub struct LasState {
    pub fp: String,
    pub ring: TR,
}
impl PartialEq for LasState {
    fn eq(&self, o: &Self) -> bool {
        self.fp == o.fp
    }
}
impl Eq for LasState {}
impl Hash for LasState {
    fn hash<H: Hasher>(&self, h: &mut H) {
        self.fp.hash(h)
    }
}

#[derive(Clone, Debug, PartialEq, Eq, Hash)]
pub enum LasAct {
    Witness(u8, u8),
    Claim,
    SetNs(u8),
    Remove(u8),
}

pub struct LasModel {
    pub ts: u8,
    pub universe: Vec<u8>,
}

fn las_fp(r: &TR) -> String {
    format!("{:?}{:?}", r, r.verif_last_witnessed_sender())
}

impl Model for LasModel {
    type State = LasState;
    type Action = LasAct;
    fn init_states(&self) -> Vec<LasState> {
        let p = profirust::fdl::ParametersBuilder::new(self.ts, profirust::Baudrate::B19200).highest_station_address(6.max(self.ts + 1)).build();
        let r = TR::new(&p);
        vec![LasState { fp: las_fp(&r), ring: r }]
    }
    fn actions(&self, _s: &LasState, a: &mut Vec<LasAct>) {
        for sa in &self.universe {
            for da in &self.universe {
                a.push(LasAct::Witness(*sa, *da));
            }
        }
        a.push(LasAct::Claim);
        for x in 0..6u8 {
            if x != self.ts {
                a.push(LasAct::SetNs(x));
                a.push(LasAct::Remove(x));
            }
        }
    }
    fn next_state(&self, s: &LasState, a: LasAct) -> Option<LasState> {
        let mut r = s.ring.clone();
        match a {
            LasAct::Witness(sa, da) => r.witness_token_pass(sa, da),
            LasAct::Claim => r.claim_token(),
            LasAct::SetNs(x) => r.set_next_station(x),
            LasAct::Remove(x) => r.remove_station(x),
        }
        Some(LasState { fp: las_fp(&r), ring: r })
    }
    fn properties(&self) -> Vec<Property<Self>> {
        vec![Property::always("true", |_, _| true)]
    }
}

pub fn las_unique_states(ts: u8) -> (usize, usize) {
    let m = || LasModel { ts, universe: vec![0, 1, 2, 3, 4, 5, 126, 200] };
    let bfs = m().checker().threads(4).spawn_bfs().join().unique_state_count();
    let dfs = m().checker().threads(1).spawn_dfs().join().unique_state_count();
    (bfs, dfs)
}

// ---- a small W4 world ---------------------------------------------------------------------------

#[derive(Clone, Debug)]
pub struct DpState {
    pub fp: u64,
    pub acts: Vec<Act>,
}
impl PartialEq for DpState {
    fn eq(&self, o: &Self) -> bool {
        self.fp == o.fp
    }
}
impl Eq for DpState {}
impl Hash for DpState {
    fn hash<H: Hasher>(&self, h: &mut H) {
        self.fp.hash(h)
    }
}

pub struct DpModel {
    pub cfg: Arc<W4Cfg>,
    pub max_depth: usize,
}

impl Model for DpModel {
    type State = DpState;
    type Action = usize;
    fn init_states(&self) -> Vec<DpState> {
        let w = W4World::init(&self.cfg);
        vec![DpState { fp: w.fp, acts: vec![] }]
    }
    fn actions(&self, s: &DpState, a: &mut Vec<usize>) {
        if s.acts.len() < self.max_depth {
            a.extend(0..self.cfg.acts.len());
        }
    }
    fn next_state(&self, s: &DpState, a: usize) -> Option<DpState> {
        let w = W4World { cfg: self.cfg.clone(), acts: s.acts.clone(), fp: s.fp, deviations: 0, dead: false };
        w.step(a, &[]).map(|n| DpState { fp: n.fp, acts: n.acts })
    }
    fn properties(&self) -> Vec<Property<Self>> {
        vec![Property::always("true", |_, _| true)]
    }
}

/// unique states of the depth-bounded DP world per stateright BFS (states first reached at minimal depth,
/// like the in-house level-synchronous BFS)
pub fn dp_unique_states(cfg: &Arc<W4Cfg>, max_depth: usize) -> usize {
    DpModel { cfg: cfg.clone(), max_depth }.checker().threads(1).spawn_bfs().join().unique_state_count()
}
