//! World W3 — 2..5 real `FdlActiveStation`s over BusSim, each polled on its own grid, with optional
//! traffic applications, passive responders, poll stalls, faults and crashes.
//! Serves C01 (bus access), C02 (ring formation), C06 (recovery), C13 (hold time / rotation).

use crate::bus::{BusSim, Fault, Tx, BIT};
use crate::engine::*;
use crate::refcodec as rc;
use crate::w2::BAUDS;
use profirust::fdl::{DataTelegramHeader, FdlActiveStation, FdlApplication, FrameCountBit, FunctionCode, HighPrioOnly, ParametersBuilder, RequestType, Telegram, TelegramTx, TelegramTxResponse};
use profirust::time::Instant;
use serde_json::{json, Value};

#[derive(Clone, Copy, Debug, PartialEq, Eq)]
pub enum Load {
    None,
    /// an SDN telegram at every opportunity
    SdnAlways,
    /// an SDN telegram with a 240 byte payload at every opportunity (long own transmissions)
    SdnLong,
    /// low-priority traffic only: an SDN telegram at every ordinary opportunity, nothing when the station
    /// offers a high-priority-only message cycle
    SdnLowOnly,
    /// an SRD request to `dest` at every opportunity
    SrdAlways(u8),
    /// an SRD request to `dest` at every third opportunity
    SrdEvery3(u8),
}

#[derive(Clone, Debug)]
pub struct TrafficApp {
    pub load: Load,
    pub calls: u64,
    pub sent: u64,
    pub replies: u64,
    pub timeouts: u64,
    pub fcb: bool,
    /// times (µs) of the calls that were NOT high-priority-only (the last 4096)
    pub normal_calls: Vec<i64>,
}

impl FdlApplication for TrafficApp {
    fn transmit_telegram(&mut self, now: Instant, fdl: &FdlActiveStation, tx: TelegramTx, hp: HighPrioOnly) -> Option<TelegramTxResponse> {
        self.calls += 1;
        let hp_only = matches!(hp, HighPrioOnly::Yes);
        if !hp_only {
            if self.normal_calls.len() >= 4096 {
                self.normal_calls.remove(0);
            }
            self.normal_calls.push(now.total_micros() as i64);
        }
        let sa = fdl.parameters().address;
        match self.load {
            Load::None => None,
            Load::SdnLowOnly if hp_only => None,
            Load::SdnAlways | Load::SdnLowOnly => {
                self.sent += 1;
                Some(tx.send_data_telegram(
                    DataTelegramHeader { da: 127, sa, dsap: Some(58), ssap: Some(62), fc: FunctionCode::Request { fcb: FrameCountBit::Inactive, req: RequestType::SdnLow } },
                    2,
                    |b| b.fill(0),
                ))
            }
            Load::SdnLong => {
                self.sent += 1;
                Some(tx.send_data_telegram(
                    DataTelegramHeader { da: 127, sa, dsap: Some(58), ssap: Some(62), fc: FunctionCode::Request { fcb: FrameCountBit::Inactive, req: RequestType::SdnLow } },
                    240,
                    |b| b.fill(0x55),
                ))
            }
            Load::SrdAlways(d) | Load::SrdEvery3(d) => {
                if matches!(self.load, Load::SrdEvery3(_)) && self.calls % 3 != 0 {
                    return None;
                }
                self.sent += 1;
                self.fcb = !self.fcb;
                Some(tx.send_data_telegram(
                    DataTelegramHeader { da: d, sa, dsap: None, ssap: None, fc: FunctionCode::Request { fcb: if self.fcb { FrameCountBit::High } else { FrameCountBit::Low }, req: RequestType::SrdHigh } },
                    4,
                    |b| b.copy_from_slice(&[1, 2, 3, 4]),
                ))
            }
        }
    }
    fn receive_reply(&mut self, _now: Instant, _fdl: &FdlActiveStation, _addr: u8, _t: Telegram) {
        self.replies += 1;
    }
    fn handle_timeout(&mut self, _now: Instant, _fdl: &FdlActiveStation, _addr: u8) {
        self.timeouts += 1;
    }
}

#[derive(Clone, Debug)]
pub struct StationCfg {
    pub addr: u8,
    pub join_us: i64,
    /// poll period = Tslot / div
    pub div: i64,
    /// phase = k * period / 3
    pub phase3: i64,
    pub load: Load,
    /// crash at this time (µs): polling stops; restart (fresh station going online) after the delay
    pub crash: Option<(i64, Option<i64>)>,
}

#[derive(Clone, Debug)]
pub struct W3Cfg {
    pub stations: Vec<StationCfg>,
    pub hsa: u8,
    pub gap: u8,
    pub ttr: Option<u32>,
    pub baud: usize,
    pub slot_bits: u16,
    /// (station index, index of its scheduled poll): this poll and all polls of that station inside the
    /// following Tslot/4 window are skipped
    pub stalls: Vec<(usize, u32)>,
    pub faults: Vec<(usize, Fault)>,
    /// passive responders: (address, reply delay in bit times; 0 = never answers)
    pub responders: Vec<(u8, u32)>,
    pub horizon_us: i64,
    /// ring predicates are sampled from here on
    pub converge_by_us: i64,
    /// PHY model: stations are deaf while they transmit (see BusSim)
    pub deaf_phy: bool,
    /// value of the stations' clock (`Instant`) at the start of the run, in microseconds: the bus runs
    /// on its own time line, the stations are given origin + bus time (negative, about to cross zero,
    /// about to cross a 32-bit boundary, weeks of uptime)
    pub origin_us: i64,
    /// every scheduled poll is followed by this many further polls at the very same instant
    pub repoll: u8,
}

impl W3Cfg {
    pub fn to_json(&self) -> Value {
        json!({
            "stations": self.stations.iter().map(|s| json!({"addr": s.addr, "join_us": s.join_us, "div": s.div, "phase3": s.phase3, "load": format!("{:?}", s.load), "crash": s.crash.map(|(t, r)| json!([t, r]))})).collect::<Vec<_>>(),
            "hsa": self.hsa, "gap": self.gap, "ttr": self.ttr, "baud": self.baud, "slot_bits": self.slot_bits,
            "stalls": self.stalls, "faults": self.faults.iter().map(|(i, f)| json!([i, format!("{:?}", f)])).collect::<Vec<_>>(),
            "responders": self.responders, "horizon_us": self.horizon_us, "converge_by_us": self.converge_by_us, "deaf_phy": self.deaf_phy, "origin_us": self.origin_us, "repoll": self.repoll,
        })
    }
    pub fn from_json(v: &Value) -> W3Cfg {
        let parse_load = |s: &str| -> Load {
            if s == "None" {
                Load::None
            } else if s == "SdnAlways" {
                Load::SdnAlways
            } else if s == "SdnLong" {
                Load::SdnLong
            } else if s == "SdnLowOnly" {
                Load::SdnLowOnly
            } else {
                let n: u8 = s.trim_end_matches(')').split('(').nth(1).unwrap().parse().unwrap();
                if s.starts_with("SrdAlways") {
                    Load::SrdAlways(n)
                } else {
                    Load::SrdEvery3(n)
                }
            }
        };
        let parse_fault = |s: &str| -> Fault {
            if s == "Drop" {
                Fault::Drop
            } else if s == "Garble" {
                Fault::Garble
            } else if s.starts_with("Truncate") {
                Fault::Truncate(s.trim_end_matches(')').split('(').nth(1).unwrap().parse().unwrap())
            } else {
                let nums: Vec<usize> = s.split(|c: char| !c.is_ascii_digit()).filter(|x| !x.is_empty()).map(|x| x.parse().unwrap()).collect();
                Fault::Flip { byte: nums[0], bit: nums[1] as u8 }
            }
        };
        W3Cfg {
            stations: v["stations"]
                .as_array()
                .unwrap()
                .iter()
                .map(|s| StationCfg {
                    addr: s["addr"].as_u64().unwrap() as u8,
                    join_us: s["join_us"].as_i64().unwrap(),
                    div: s["div"].as_i64().unwrap(),
                    phase3: s["phase3"].as_i64().unwrap(),
                    load: parse_load(s["load"].as_str().unwrap()),
                    crash: s["crash"].as_array().map(|a| (a[0].as_i64().unwrap(), a[1].as_i64())),
                })
                .collect(),
            hsa: v["hsa"].as_u64().unwrap() as u8,
            gap: v["gap"].as_u64().unwrap() as u8,
            ttr: v["ttr"].as_u64().map(|x| x as u32),
            baud: v["baud"].as_u64().unwrap() as usize,
            slot_bits: v["slot_bits"].as_u64().unwrap() as u16,
            stalls: v["stalls"].as_array().unwrap().iter().map(|x| (x[0].as_u64().unwrap() as usize, x[1].as_u64().unwrap() as u32)).collect(),
            faults: v["faults"].as_array().unwrap().iter().map(|x| (x[0].as_u64().unwrap() as usize, parse_fault(x[1].as_str().unwrap()))).collect(),
            responders: v["responders"].as_array().unwrap().iter().map(|x| (x[0].as_u64().unwrap() as u8, x[1].as_u64().unwrap() as u32)).collect(),
            horizon_us: v["horizon_us"].as_i64().unwrap(),
            converge_by_us: v["converge_by_us"].as_i64().unwrap(),
            deaf_phy: v["deaf_phy"].as_bool().unwrap_or(false),
            origin_us: v["origin_us"].as_i64().unwrap_or(0),
            repoll: v["repoll"].as_u64().unwrap_or(0) as u8,
        }
    }
    pub fn params(&self, addr: u8) -> profirust::fdl::Parameters {
        let mut b = ParametersBuilder::new(addr, BAUDS[self.baud].0);
        b.slot_bits(self.slot_bits).highest_station_address(self.hsa).gap_wait_rotations(self.gap);
        if let Some(t) = self.ttr {
            b.token_rotation_bits(t);
        }
        b.build()
    }
    pub fn slot_us(&self) -> i64 {
        (self.slot_bits as i64) * 1_000_000 / BAUDS[self.baud].1 as i64
    }
    pub fn bit_us_f(&self) -> f64 {
        1_000_000.0 / BAUDS[self.baud].1 as f64
    }
}

#[derive(Clone, Debug, PartialEq, Eq)]
pub struct RingView {
    pub online: bool,
    pub in_ring: bool,
    pub las: Vec<u8>,
    pub ns: u8,
    pub ps: u8,
}

/// C01 monitor state (incremental over the bus trace)
#[derive(Clone, Debug, Default)]
pub struct C01Mon {
    pub prev: Option<(u8, rc::RFrame, i64, i64)>, // (sender address, frame, start, end) of the previous transmission
    pub holder: Option<u8>,
    pub last_pass: Option<(u8, u8, i64)>, // (passer, destination, end)
    pub violations: Vec<(String, String)>,
    pub tokens_seen: u64,
    pub min_idle_initiated_bits: f64,
    pub min_idle_reply_bits: f64,
    /// (address, time in bus units) of every set_online(): a station's silence time-out cannot have
    /// started before it began to listen
    pub online_since: Vec<(u8, i64)>,
}

#[derive(Clone)]
pub struct W3Run {
    pub cfg: std::sync::Arc<W3Cfg>,
    pub stations: Vec<FdlActiveStation>,
    pub apps: Vec<TrafficApp>,
    pub bus: BusSim,
    pub online: Vec<bool>,
    pub crashed: Vec<bool>,
    pub restarted: Vec<bool>,
    pub next_poll: Vec<i64>,
    pub poll_idx: Vec<u32>,
    pub period: Vec<i64>,
    pub now: i64,
    pub polls: u64,
    pub trace_seen: usize,
    pub c01: C01Mon,
    /// full decoded trace kept for the end-of-run oracles: (sender addr, frame or None, start, end, overlap)
    pub log: Vec<(u8, Option<rc::RFrame>, i64, i64)>,
    pub samples: Vec<(i64, Vec<RingView>)>,
    pub next_sample: i64,
    pub sample_every: i64,
    pub panic: Option<String>,
    pub pending_responses: Vec<(i64, u8, Vec<u8>)>, // (time, responder address, bytes)
    pub last_effective: bool,
    pub stalls_used: Vec<(usize, u32)>,
    pub horizon_us: i64,
    pub faults_used: Vec<String>,
    /// restart a crashed station at this time (fresh station going online)
    pub restart_at: Vec<Option<i64>>,
    /// the restart is set_online() on the SAME station object (it was taken down with set_offline()), not a
    /// fresh station
    pub soft_restart: Vec<bool>,
    /// forged telegrams: (index of the transmission after which it is injected, bytes); sent by the
    /// environment port one synchronisation pause after that transmission
    pub forged: Vec<(usize, Vec<u8>)>,
    /// forged token offers seen so far: (sa, da, count)
    pub forged_offers: Vec<(u8, u8, u8)>,
}

const ENV_PORT_OFFSET: usize = 0;

impl W3Run {
    pub fn new(cfg: &std::sync::Arc<W3Cfg>) -> W3Run {
        let n = cfg.stations.len();
        let slot = cfg.slot_us();
        let mut bus = BusSim::new(BAUDS[cfg.baud].1, n + 1);
        bus.deaf_while_transmitting = cfg.deaf_phy;
        bus.origin_us = cfg.origin_us;
        bus.retire_port(n as u8);
        bus.faults = cfg.faults.clone();
        let mut stations = vec![];
        let mut apps = vec![];
        let mut period = vec![];
        let mut next_poll = vec![];
        for s in &cfg.stations {
            stations.push(FdlActiveStation::new(cfg.params(s.addr)));
            apps.push(TrafficApp { load: s.load, calls: 0, sent: 0, replies: 0, timeouts: 0, fcb: false, normal_calls: vec![] });
            let p = (slot / s.div).max(1);
            period.push(p);
            next_poll.push(s.phase3 * p / 3);
        }
        let _ = ENV_PORT_OFFSET;
        W3Run {
            cfg: cfg.clone(),
            stations,
            apps,
            bus,
            online: vec![false; n],
            crashed: vec![false; n],
            restarted: vec![false; n],
            next_poll,
            poll_idx: vec![0; n],
            period,
            now: 0,
            polls: 0,
            trace_seen: 0,
            c01: C01Mon { min_idle_initiated_bits: f64::MAX, min_idle_reply_bits: f64::MAX, ..Default::default() },
            log: vec![],
            samples: vec![],
            next_sample: cfg.converge_by_us,
            sample_every: (slot * 3).max(1),
            panic: None,
            pending_responses: vec![],
            last_effective: false,
            stalls_used: vec![],
            horizon_us: cfg.horizon_us,
            faults_used: vec![],
            restart_at: vec![None; n],
            soft_restart: vec![false; n],
            forged: vec![],
            forged_offers: vec![],
        }
    }

    pub fn done(&self) -> bool {
        self.now >= self.horizon_us || self.panic.is_some()
    }

    pub fn addr_of_port(&self, port: u8) -> u8 {
        self.cfg.stations.get(port as usize).map(|s| s.addr).unwrap_or(255)
    }

    pub fn view(&self, i: usize) -> RingView {
        let st = &self.stations[i];
        let r = st.inspect_token_ring();
        RingView { online: self.online[i] && !self.crashed[i], in_ring: st.is_in_ring(), las: r.iter_active_stations().collect(), ns: r.next_station(), ps: r.previous_station() }
    }

    /// Which station polls next (index), and when.
    pub fn peek(&self) -> (usize, i64) {
        let mut best = 0;
        for i in 1..self.next_poll.len() {
            if self.next_poll[i] < self.next_poll[best] {
                best = i;
            }
        }
        (best, self.next_poll[best])
    }

    /// Apply a stall to station `i`: the gap between its previous poll and its next poll becomes the
    /// maximum the quantifier allows (Tslot/4); polls inside are skipped, then the grid resumes.
    pub fn stall_next(&mut self, i: usize) {
        let window = self.cfg.slot_us() / 4;
        let prev = self.next_poll[i] - self.period[i];
        let until = prev + window;
        self.stalls_used.push((i, self.poll_idx[i]));
        while self.next_poll[i] + self.period[i] <= until {
            self.next_poll[i] += self.period[i];
            self.poll_idx[i] += 1;
        }
    }

    /// Execute the next scheduled poll. Returns (station index, effective).
    pub fn step(&mut self) -> (usize, bool) {
        let (i, t) = self.peek();
        // environment responders due before this poll
        self.flush_responses(t);
        self.now = t;
        // configured stalls
        if self.cfg.stalls.iter().any(|(s, k)| *s == i && *k == self.poll_idx[i]) && !self.stalls_used.iter().any(|(s, k)| *s == i && *k == self.poll_idx[i]) {
            self.stall_next(i);
            return self.step();
        }
        self.next_poll[i] += self.period[i];
        self.poll_idx[i] += 1;
        let sc = &self.cfg.stations[i];
        // crash / restart
        if let Some((tc, restart)) = sc.crash {
            if !self.restarted[i] && self.online[i] && t >= tc {
                match restart {
                    Some(d) if t >= tc + d => {
                        // power-on again: a fresh station
                        self.restarted[i] = true;
                        self.crashed[i] = false;
                        self.stations[i] = FdlActiveStation::new(self.cfg.params(sc.addr));
                        self.stations[i].set_online();
                        { let u = t * self.bus.rate; self.c01.online_since.retain(|(a, _)| *a != sc.addr); self.c01.online_since.push((sc.addr, u)); }
                        self.bus.flush_port(i as u8, t);
                    }
                    _ => {
                        self.crashed[i] = true;
                        return (i, false);
                    }
                }
            }
        }
        if self.crashed[i] {
            match self.restart_at[i] {
                Some(rt) if t >= rt => {
                    self.restart_at[i] = None;
                    self.crashed[i] = false;
                    if !self.soft_restart[i] {
                        self.stations[i] = FdlActiveStation::new(self.cfg.params(sc.addr));
                    }
                    self.stations[i].set_online();
                    { let u = t * self.bus.rate; self.c01.online_since.retain(|(a, _)| *a != sc.addr); self.c01.online_since.push((sc.addr, u)); }
                    self.bus.flush_port(i as u8, t);
                }
                _ => return (i, false),
            }
        }
        if !self.online[i] {
            if t >= sc.join_us {
                self.stations[i].set_online();
                { let u = t * self.bus.rate; self.c01.online_since.retain(|(a, _)| *a != sc.addr); self.c01.online_since.push((sc.addr, u)); }
                self.bus.flush_port(i as u8, t);
                self.online[i] = true;
            } else {
                return (i, false);
            }
        }
        let before_tx = self.bus.tx_count;
        let before_pending = self.bus.pending(i as u8, t);
        let now = Instant::from_micros(self.cfg.origin_us + t);
        let station = &mut self.stations[i];
        let app = &mut self.apps[i];
        let bus = &mut self.bus;
        let repoll = self.cfg.repoll;
        let r = catch(|| {
            let mut port = bus.port(i as u8);
            station.poll(now, &mut port, app);
            for _ in 0..repoll {
                station.poll(now, &mut port, app);
            }
        });
        self.polls += 1 + repoll as u64;
        if let Err(p) = r {
            self.panic = Some(format!("{} ({}:{} {})", p.sig(), p.file, p.line, p.msg));
            return (i, true);
        }
        let effective = self.bus.tx_count != before_tx || before_pending > 0;
        self.absorb_trace();
        if t >= self.next_sample {
            let v: Vec<RingView> = (0..self.stations.len()).map(|k| self.view(k)).collect();
            self.samples.push((t, v));
            self.next_sample = t + self.sample_every;
        }
        self.last_effective = effective;
        (i, effective)
    }

    fn flush_responses(&mut self, until: i64) {
        self.pending_responses.sort();
        while let Some((t, _, _)) = self.pending_responses.first() {
            if *t > until {
                break;
            }
            let (t, _addr, bytes) = self.pending_responses.remove(0);
            let port = self.cfg.stations.len() as u8;
            self.bus.transmit(port, t, &bytes);
            self.absorb_trace();
        }
    }

    fn absorb_trace(&mut self) {
        while self.trace_seen < self.bus.trace.len() {
            let tx = self.bus.trace[self.trace_seen].clone();
            self.trace_seen += 1;
            let frame = match rc::decode(&tx.bytes) {
                rc::RDec::Frame(f, n) if n == tx.bytes.len() => Some(f),
                _ => None,
            };
            let sender_addr = if (tx.sender as usize) < self.cfg.stations.len() { self.cfg.stations[tx.sender as usize].addr } else { frame.as_ref().and_then(|f| f.sa()).unwrap_or(254) };
            // schedule responder replies
            if let Some(f) = &frame {
                if f.req_expects_reply() && (tx.sender as usize) < self.cfg.stations.len() {
                    if let Some((ra, delay)) = self.cfg.responders.iter().find(|(a, _)| Some(*a) == f.da()) {
                        if *delay > 0 {
                            let t = self.bus.us_ceil(tx.end + *delay as i64 * BIT);
                            let resp = rc::encode(&rc::RFrame::Data { da: sender_addr, sa: *ra, dsap: None, ssap: None, fc: 0x08, du: vec![9, 9] });
                            self.pending_responses.push((t, *ra, resp));
                        }
                    }
                }
            }
            let is_env = (tx.sender as usize) >= self.cfg.stations.len();
            if is_env && frame.as_ref().map(|f| f.is_token()).unwrap_or(false) && self.forged_tokens_active() {
                // a forged token offer from the environment: it confers the right to transmit only when the
                // same station offers it a second time
                if let Some(rc::RFrame::Token { da, sa }) = &frame {
                    let mut second = false;
                    let mut found = false;
                    for o in self.forged_offers.iter_mut() {
                        if o.0 == *sa && o.1 == *da {
                            o.2 += 1;
                            found = true;
                            second = o.2 >= 2;
                        }
                    }
                    if !found {
                        self.forged_offers.push((*sa, *da, 1));
                    }
                    if second {
                        self.c01.holder = Some(*da);
                    }
                    self.c01.prev = Some((*sa, frame.clone().unwrap(), tx.start, tx.end));
                }
            } else {
                self.c01_observe(&tx, sender_addr, frame.as_ref());
            }
            self.log.push((sender_addr, frame, tx.start, tx.end));
            // (11 bit times after the trigger: nobody may initiate before 33 bit times, and by then the first
            // forged byte is visible as bus activity, so no station can innocently collide with it)
            let gap = self.bus.bits_us_floor(11) + 2;
            let due: Vec<Vec<u8>> = self.forged.iter().filter(|(n, _)| *n == tx.idx).map(|(_, b)| b.clone()).collect();
            for (k, b) in due.into_iter().enumerate() {
                let t = self.bus.us_ceil(tx.end) + gap + k as i64 * (gap + self.bus.bits_us_floor(11 * b.len() as i64) + 1);
                self.pending_responses.push((t, 254, b));
            }
        }
        if self.bus.trace.len() > 4096 {
            self.bus.trace.clear();
            self.trace_seen = 0;
        }
    }

    // ---- C01 trace monitor ------------------------------------------------------------------------

    fn c01_observe(&mut self, tx: &Tx, a: u8, frame: Option<&rc::RFrame>) {
        let rate = self.bus.rate;
        let slot = self.cfg.slot_bits as i64 * BIT;
        let m = &mut self.c01;
        // R1
        if tx.overlaps_prev {
            let who = m.prev.as_ref().map(|p| p.0).unwrap_or(255);
            m.violations.push(("c01.r1.collision".into(), format!("#{a} starts transmitting at {} us while #{who} is still transmitting", tx.start_us)));
        }
        let frame = match frame {
            Some(f) => f.clone(),
            None => {
                m.violations.push(("c01.undecodable_transmission".into(), format!("#{a} transmitted undecodable bytes {}", hex(&tx.bytes))));
                return;
            }
        };
        let is_reply = match (&m.prev, &frame) {
            (Some((_, pf, _, _)), f) => {
                (matches!(f, rc::RFrame::Sc) || f.is_response()) && pf.req_expects_reply() && pf.da() == Some(a)
            }
            _ => false,
        };
        // R2 idle times (tolerance: 1 µs)
        if let Some((_, _, _, pend)) = &m.prev {
            let gap = tx.start - *pend;
            let bits = gap as f64 / BIT as f64;
            if is_reply {
                m.min_idle_reply_bits = m.min_idle_reply_bits.min(bits);
                if gap < 11 * BIT - rate && !tx.overlaps_prev {
                    m.violations.push(("c01.r2.reply_before_min_tsdr".into(), format!("#{a} replies {:.2} bit times after the request (minimum 11)", bits)));
                }
            } else {
                m.min_idle_initiated_bits = m.min_idle_initiated_bits.min(bits);
                if gap < 33 * BIT - rate && !tx.overlaps_prev {
                    m.violations.push(("c01.r2.initiated_before_sync_pause".into(), format!("#{a} initiates {} only {:.2} bit times after the previous telegram (minimum 33)", frame.short(), bits)));
                }
            }
        }
        // R3 permission
        if !is_reply {
            let listening_since = m.online_since.iter().find(|(x, _)| *x == a).map(|(_, u)| *u).unwrap_or(0);
            let silence = tx.start - m.prev.as_ref().map(|p| p.3).unwrap_or(i64::MIN / 2).max(listening_since);
            let mut ok = m.holder == Some(a);
            if !ok {
                // the passer again when Tslot passed in silence after its pass
                if let Some((p, _d, pend)) = m.last_pass {
                    if p == a && m.prev.as_ref().map(|x| x.3) == Some(pend) && tx.start - pend >= slot - rate {
                        ok = true;
                    }
                }
            }
            if !ok {
                if let rc::RFrame::Token { da, sa } = &frame {
                    if *da == a && *sa == a {
                        let timeout = (6 + 2 * a as i64) * slot;
                        if silence >= timeout - rate {
                            ok = true;
                        } else {
                            m.violations.push(("c01.r3.claim_before_timeout".into(), format!("#{a} claims the token after {:.1} bit times of silence (its time-out is {} bits)", silence as f64 / BIT as f64, timeout / BIT)));
                            ok = true; // reported once, do not also report "without permission"
                        }
                    }
                }
            }
            if !ok {
                m.violations.push(("c01.r3.transmits_without_permission".into(), format!("#{a} transmits {} at {} us but the token holder is {:?}", frame.short(), tx.start_us, m.holder)));
            }
        }
        if let rc::RFrame::Token { da, sa } = &frame {
            m.tokens_seen += 1;
            m.holder = Some(*da);
            m.last_pass = Some((*sa, *da, tx.end));
        }
        m.prev = Some((a, frame, tx.start, tx.end));
    }

    fn forged_tokens_active(&self) -> bool {
        !self.forged.is_empty()
    }

    /// Run to the horizon.
    pub fn run(&mut self) {
        while !self.done() {
            self.step();
        }
        self.flush_responses(self.now);
    }
}

/// token telegrams (passer, destination, end µs) in a time window
pub fn tokens_in(run: &W3Run, from_us: i64, to_us: i64) -> Vec<(u8, u8, i64)> {
    let r = run.bus.rate;
    run.log
        .iter()
        .filter_map(|(_, f, _s, e)| match f {
            Some(rc::RFrame::Token { da, sa }) if *e / r >= from_us && *e / r <= to_us => Some((*sa, *da, *e / r)),
            _ => None,
        })
        .collect()
}

/// C02(a): the ring predicate on every sample in [converge_by, horizon] and on the token telegrams.
pub fn c02_check(run: &W3Run) -> Result<(), (String, String)> {
    let cfg = &run.cfg;
    let horizon_us = run.horizon_us;
    if run.samples.is_empty() {
        return Err(("c02.harness.no_samples".into(), "no samples were taken".into()));
    }
    for (t, views) in &run.samples {
        let online: Vec<u8> = views.iter().enumerate().filter(|(_, v)| v.online).map(|(i, _)| cfg.stations[i].addr).collect();
        let mut sorted = online.clone();
        sorted.sort();
        for (i, v) in views.iter().enumerate() {
            if !v.online {
                continue;
            }
            let a = cfg.stations[i].addr;
            if !v.in_ring {
                return Err(("c02.not_in_ring".into(), format!("t={t}us: #{a} is online but not in the ring (online set {sorted:?})")));
            }
            let mut las = v.las.clone();
            if !las.contains(&a) {
                las.push(a);
            }
            las.sort();
            if las != sorted {
                return Err(("c02.las_differs".into(), format!("t={t}us: #{a} has LAS {:?} but the online stations are {sorted:?}", v.las)));
            }
            let k = sorted.iter().position(|x| *x == a).unwrap();
            let ns = sorted[(k + 1) % sorted.len()];
            let ps = sorted[(k + sorted.len() - 1) % sorted.len()];
            if v.ns != ns || v.ps != ps {
                return Err(("c02.neighbours".into(), format!("t={t}us: #{a} has NS={} PS={} but its cyclic neighbours in {sorted:?} are NS={ns} PS={ps}", v.ns, v.ps)));
            }
        }
    }
    // token order on the trace inside the stability window
    let first = run.samples.first().unwrap().0;
    let online: Vec<u8> = {
        let mut v: Vec<u8> = run.samples.last().unwrap().1.iter().enumerate().filter(|(_, v)| v.online).map(|(i, _)| cfg.stations[i].addr).collect();
        v.sort();
        v
    };
    let toks = tokens_in(run, first, horizon_us);
    if toks.len() < online.len() * 2 {
        return Err(("c02.token_not_circulating".into(), format!("only {} token telegrams between {}us and the horizon", toks.len(), first)));
    }
    for w in toks.windows(2) {
        let (sa, da, t) = w[1];
        let k = match online.iter().position(|x| *x == sa) {
            Some(k) => k,
            None => return Err(("c02.token_from_unknown".into(), format!("t={t}us token from #{sa}"))),
        };
        let succ = online[(k + 1) % online.len()];
        if da != succ {
            return Err(("c02.token_skips_station".into(), format!("t={t}us: token {sa}->{da} but the successor of #{sa} in {online:?} is #{succ}")));
        }
        if w[0].0 == sa && w[0].1 == da && online.len() > 1 {
            return Err(("c02.token_pass_repeated".into(), format!("t={t}us: token {sa}->{da} repeated in the stable phase")));
        }
        if w[0].1 != sa && online.len() > 1 {
            return Err(("c02.token_out_of_order".into(), format!("t={t}us: token {sa}->{da} follows token {}->{}", w[0].0, w[0].1)));
        }
    }
    Ok(())
}

pub fn replay(v: &Value) {
    let r = &v["replay"];
    let cfg = std::sync::Arc::new(W3Cfg::from_json(&r["cfg"]));
    println!("configuration: {}", r["cfg"]);
    let mut run = W3Run::new(&cfg);
    run.run();
    let rate = run.bus.rate;
    let limit = r["show_from_us"].as_i64().unwrap_or(0);
    let mut shown = 0;
    for (a, f, s, e) in &run.log {
        if *s / rate >= limit && shown < 400 {
            println!("{:>10} us .. {:>10} us  #{:<3} {}", s / rate, e / rate, a, f.as_ref().map(|f| f.short()).unwrap_or("??".into()));
            shown += 1;
        }
    }
    println!("panic: {:?}", run.panic);
    println!("C01 monitor: {:?}", run.c01.violations.iter().take(5).collect::<Vec<_>>());
    println!("C02 check  : {:?}", c02_check(&run));
    {
        // the C13 trace oracle on the same run (needs the scenario-level view of the configuration)
        let sc = crate::props::w3props::Scenario {
            addrs: cfg.stations.iter().map(|s| s.addr).collect(),
            hsa: cfg.hsa,
            gap: cfg.gap,
            baud: cfg.baud,
            slot_bits: cfg.slot_bits,
            ttr: cfg.ttr,
            divs: cfg.stations.iter().map(|s| s.div).collect(),
            phases: cfg.stations.iter().map(|s| s.phase3).collect(),
            deaf: cfg.deaf_phy,
            loads: cfg.stations.iter().map(|s| s.load).collect(),
            late: vec![],
            responders: cfg.responders.clone(),
            origin: cfg.origin_us,
            repoll: cfg.repoll,
            endurance: 1,
        };
        println!("C13 check  : {:?}", crate::props::w3props::c13_check(&run, &sc));
    }
    for i in 0..cfg.stations.len() {
        println!("station #{}: {:?}", cfg.stations[i].addr, run.view(i));
    }
}
