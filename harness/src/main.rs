//! pbmc — bounded exhaustive model checking of profirust (driver).
//! usage: pbmc <Cxx> <quick|thorough>      |     pbmc <Cxx> --replay <file>
#![allow(clippy::all)]
#![allow(dead_code)]

mod bus;
mod dprig;
mod engine;
mod props;
mod refcodec;
mod w2;
mod w2r;
mod w3;
mod w4;
mod xcheck;

use engine::Tier;

fn main() {
    let args: Vec<String> = std::env::args().collect();
    if args.len() < 3 {
        eprintln!("usage: pbmc <Cxx> <quick|thorough> | pbmc <Cxx> --replay <file>");
        std::process::exit(2);
    }
    let prop = args[1].as_str();
    if args[2] == "--replay" {
        let text = std::fs::read_to_string(&args[3]).expect("replay file");
        let v: serde_json::Value = serde_json::from_str(&text).expect("replay json");
        engine::init_ctx(prop, Tier::Quick);
        if v["replay"]["world"] == "panic" {
            println!("library panic outside any guard of the harness:\n{}:{} {}\n{}", v["replay"]["file"], v["replay"]["line"], v["replay"]["message"], v["replay"]["backtrace"].as_str().unwrap_or(""));
            println!("re-run the check to reproduce: {}", v["how_to_replay"]);
            return;
        }
        match prop {
            "C09" => props::c09::replay(&v),
            "C10" => props::c10::replay(&v),
            "C16" => props::c16::replay(&v),
            "C17" => props::c17::replay(&v),
            "C03" | "C04" | "C07" | "C08" | "C14" => props::w4props::replay(&v),
            "C05" | "C11" => {
                if v["replay"]["world"] == "w3-forged" {
                    props::w3props::replay(&v)
                } else {
                    props::w2props::replay(&v)
                }
            }
            "C18" => props::c18::replay(&v),
            "C12" | "C15" => props::w2rprops::replay(&v),
            "C20" => props::c20::replay(&v),
            "C19" => props::c19::replay(&v),
            "C01" | "C02" | "C06" | "C13" => props::w3props::replay(&v),
            _ => eprintln!("no replay for {prop}"),
        }
        return;
    }
    let tier = match args[2].as_str() {
        "quick" => Tier::Quick,
        "thorough" => Tier::Thorough,
        o => {
            eprintln!("unknown tier {o}");
            std::process::exit(2)
        }
    };
    let tier = match std::env::var("VERIF_TIER").ok().as_deref() {
        Some("thorough") => Tier::Thorough,
        Some("quick") => Tier::Quick,
        _ => tier,
    };
    engine::init_ctx(prop, tier);
    match prop {
        "C09" => props::c09::run(tier),
        "C10" => props::c10::run(tier),
        "C16" => props::c16::run(tier),
        "C17" => props::c17::run(tier),
        "C03" => props::w4props::run_c03(tier),
        "C04" => props::w4props::run_c04(tier),
        "C07" => props::w4props::run_c07(tier),
        "C08" => props::w4props::run_c08(tier),
        "C14" => props::w4props::run_c14(tier),
        "C05" => props::w2props::run_c05(tier),
        "C11" => props::w2props::run_c11(tier),
        "C18" => props::c18::run(tier),
        "C12" => props::w2rprops::run_c12(tier),
        "C15" => props::w2rprops::run_c15(tier),
        "C20" => props::c20::run(tier),
        "C19" => props::c19::run(tier),
        "C01" => props::w3props::run_ring(props::w3props::Which::C01, tier),
        "C02" => props::w3props::run_ring(props::w3props::Which::C02, tier),
        "C06" => props::w3props::run_c06(tier),
        "C13" => props::w3props::run_c13(tier),
        _ => {
            eprintln!("unknown property {prop}");
            std::process::exit(2)
        }
    }
}
