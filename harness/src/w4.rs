//! World W4 — one real `DpMaster` with 0..4 real `Peripheral`s, driven through its
//! `FdlApplication` interface against reference slaves and an adversarial environment.
//! Serves C03 C04 C07 C08 C14 (and the DP part of C05).

use crate::dprig::*;
use crate::engine::*;
use crate::refcodec as rc;
use profirust::dp::PeripheralEvent;
use serde_json::{json, Value};
use std::sync::Arc;

#[derive(Clone, Copy, Debug, PartialEq, Eq, Hash)]
pub enum Act {
    /// the reference slave executes the request and its reply is delivered
    Answer,
    /// the request never reaches the slave; the master sees a time-out
    ReqLost,
    /// the slave executes the request; the reply is lost; the master sees a time-out
    ReplyLost,
    /// the slave executes the request; the master loses the token (no callback at all)
    NoCallback,
    /// slave power cycle just before the request arrives, then Answer
    PowerCycle,
    /// slave raises Prm_Req in its next diagnostics, then Answer
    PrmReq,
    /// slave reports Station_Not_Ready for two more diagnostics, then Answer
    NotReady,
    /// slave has diagnostics pending (answers data exchange with DH), then Answer
    DiagPending,
    /// slave has extended diagnostics (one block), then Answer
    ExtDiag,
    /// the slave executes the request, the reply is replaced by entry k of the catalogue
    Malformed(u8),
    /// user calls request_diagnostics() on peripheral i while the request is outstanding
    UserDiag(u8),
    /// user writes pattern p into the output image of peripheral i
    UserWrite(u8, u8),
    /// the token stays away for more than the global-control interval before the next callback
    LongPause,
    /// slave input data changes to pattern p (before the request arrives), then Answer
    InputChange(u8),
    /// the user adds the last configured peripheral to the running master (only with `late_add`)
    AddLate,
    /// the user calls reset_address() on peripheral i (to the address it already has: "a new DP
    /// parameterization will take place once the device responds") — also while a request is outstanding
    ResetAddr(u8),
    /// the user calls enter_operate() again on the running master (at any point of a DP cycle, also between
    /// the transmission of a request and its reply)
    EnterOperate,
}

impl Act {
    pub fn name(&self) -> String {
        format!("{:?}", self)
    }
    pub fn parse(s: &str) -> Act {
        let num = |s: &str| -> Vec<u8> { s.trim_end_matches(')').split(['(', ',']).skip(1).map(|x| x.trim().parse().unwrap()).collect() };
        match s.split('(').next().unwrap() {
            "Answer" => Act::Answer,
            "ReqLost" => Act::ReqLost,
            "ReplyLost" => Act::ReplyLost,
            "NoCallback" => Act::NoCallback,
            "PowerCycle" => Act::PowerCycle,
            "PrmReq" => Act::PrmReq,
            "NotReady" => Act::NotReady,
            "DiagPending" => Act::DiagPending,
            "ExtDiag" => Act::ExtDiag,
            "LongPause" => Act::LongPause,
            "AddLate" => Act::AddLate,
            "Malformed" => Act::Malformed(num(s)[0]),
            "UserDiag" => Act::UserDiag(num(s)[0]),
            "ResetAddr" => Act::ResetAddr(num(s)[0]),
            "EnterOperate" => Act::EnterOperate,
            "UserWrite" => Act::UserWrite(num(s)[0], num(s)[1]),
            "InputChange" => Act::InputChange(num(s)[0]),
            o => panic!("unknown action {o}"),
        }
    }
}

#[derive(Clone, Copy, Debug, PartialEq, Eq)]
pub enum Mon {
    C03,
    C04,
    C05,
    C07,
    C08,
    C14,
}

#[derive(Clone, Debug)]
pub struct W4Cfg {
    pub rig: RigCfg,
    /// per slave: deviation of the *slave's* expectation from the master's options:
    /// 0 = matches, 1 = slave expects another configuration, 2 = slave has another ident,
    /// 3 = the station does not exist (never answers), 4 = the slave is locked by another DP master
    pub slave_dev: Vec<u8>,
    pub gc_every_visit: bool,
    pub high_prio: bool,
    pub acts: Vec<Act>,
    pub mon: Mon,
    /// maximum number of non-default (non-Answer) actions on a path (deviation budget); 255 = unbounded
    pub dev_budget: u8,
    /// the last peripheral is not added before going to Operate but by the action AddLate
    pub late_add: bool,
}

pub fn cfg_to_json(c: &W4Cfg) -> Value {
    json!({
        "ts": c.rig.ts, "baud": c.rig.baud, "max_retry": c.rig.max_retry, "min_tsdr": c.rig.min_tsdr,
        "watchdog_ms": c.rig.watchdog_ms, "slot_bits": c.rig.slot_bits, "fixed_slots": c.rig.fixed_slots, "operate": c.rig.operate, "origin_us": c.rig.origin_us,
        "periphs": c.rig.periphs.iter().map(|p| json!({
            "addr": p.addr, "ident": p.ident, "sync": p.sync, "freeze": p.freeze, "groups": p.groups,
            "user_prm": p.user_prm.as_ref().map(|b| hex(b)), "config": p.config.as_ref().map(|b| hex(b)),
            "in_len": p.in_len, "out_len": p.out_len, "diag_buf": p.diag_buf})).collect::<Vec<_>>(),
        "slave_dev": c.slave_dev, "gc_every_visit": c.gc_every_visit, "high_prio": c.high_prio,
        "acts": c.acts.iter().map(|a| a.name()).collect::<Vec<_>>(), "mon": format!("{:?}", c.mon), "dev_budget": c.dev_budget, "late_add": c.late_add,
    })
}

pub fn cfg_from_json(v: &Value) -> W4Cfg {
    let u = |x: &Value| x.as_u64().unwrap();
    let periphs = v["periphs"]
        .as_array()
        .unwrap()
        .iter()
        .map(|p| PeriphCfg {
            addr: u(&p["addr"]) as u8,
            ident: u(&p["ident"]) as u16,
            sync: p["sync"].as_bool().unwrap(),
            freeze: p["freeze"].as_bool().unwrap(),
            groups: u(&p["groups"]) as u8,
            user_prm: p["user_prm"].as_str().map(unhex),
            config: p["config"].as_str().map(unhex),
            in_len: u(&p["in_len"]) as usize,
            out_len: u(&p["out_len"]) as usize,
            diag_buf: p["diag_buf"].as_u64().map(|x| x as usize),
        })
        .collect();
    W4Cfg {
        rig: RigCfg {
            ts: u(&v["ts"]) as u8,
            baud: u(&v["baud"]) as u8,
            max_retry: u(&v["max_retry"]) as u8,
            min_tsdr: u(&v["min_tsdr"]) as u8,
            watchdog_ms: v["watchdog_ms"].as_u64(),
            slot_bits: v["slot_bits"].as_u64().map(|x| x as u16),
            periphs,
            fixed_slots: v["fixed_slots"].as_u64().map(|x| x as usize),
            operate: v["operate"].as_bool().unwrap(),
            origin_us: v["origin_us"].as_i64().unwrap_or(0),
        },
        slave_dev: v["slave_dev"].as_array().unwrap().iter().map(|x| u(x) as u8).collect(),
        gc_every_visit: v["gc_every_visit"].as_bool().unwrap(),
        high_prio: v["high_prio"].as_bool().unwrap(),
        acts: v["acts"].as_array().unwrap().iter().map(|a| Act::parse(a.as_str().unwrap())).collect(),
        mon: match v["mon"].as_str().unwrap() {
            "C03" => Mon::C03,
            "C04" => Mon::C04,
            "C05" => Mon::C05,
            "C07" => Mon::C07,
            "C08" => Mon::C08,
            _ => Mon::C14,
        },
        dev_budget: u(&v["dev_budget"]) as u8,
        late_add: v["late_add"].as_bool().unwrap_or(false),
    }
}

/// Catalogue of decodable replies that the FDL layer would admit (SC, or a response from the
/// addressed station to the master) but that are not what a conforming slave would send.
pub fn catalogue(ts: u8, addr: u8, in_len: usize) -> Vec<(&'static str, Vec<u8>)> {
    let d = |dsap: Option<u8>, ssap: Option<u8>, fc: u8, du: Vec<u8>| rc::encode(&rc::RFrame::Data { da: ts, sa: addr, dsap, ssap, fc, du });
    let diag6 = vec![0x00, 0x04, 0x00, ts, 0x13, 0x37];
    vec![
        ("sc", vec![rc::SC]),                                                                       // 0
        ("data_empty_dl", d(None, None, 0x08, vec![])),                                             // 1
        ("diag_ok_ready", d(Some(62), Some(60), 0x08, diag6.clone())),                              // 2
        ("diag_wrong_dsap", d(Some(61), Some(60), 0x08, diag6.clone())),                            // 3
        ("diag_wrong_ssap", d(Some(62), Some(61), 0x08, diag6.clone())),                            // 4
        ("diag_short", d(Some(62), Some(60), 0x08, diag6[..5].to_vec())),                           // 5
        ("status_ue", d(None, None, 0x01, vec![])),                                                 // 6
        ("status_rr", d(None, None, 0x02, vec![])),                                                 // 7
        ("status_rs", d(None, None, 0x03, vec![])),                                                 // 8
        ("status_nr", d(None, None, 0x09, vec![])),                                                 // 9
        ("status_rdl", d(None, None, 0x0C, vec![0x55; in_len])),                                    // 10
        ("status_rdh", d(None, None, 0x0D, vec![0x55; in_len])),                                    // 11
        ("data_len_plus1", d(None, None, 0x08, vec![0x66; in_len + 1])),                            // 12
        ("data_len_minus1", d(None, None, 0x08, vec![0x66; in_len.saturating_sub(1)])),             // 13
        ("data_ok_status0", d(None, None, 0x00, vec![0x77; in_len])),                               // 14
        ("data_dh", d(None, None, 0x0A, vec![0x78; in_len])),                                       // 15
        ("diag_prm_fault", d(Some(62), Some(60), 0x08, vec![0x40, 0x04, 0x00, ts, 0x13, 0x37])),    // 16
        ("diag_cfg_fault", d(Some(62), Some(60), 0x08, vec![0x04, 0x04, 0x00, ts, 0x13, 0x37])),    // 17
        ("diag_ext_len0", d(Some(62), Some(60), 0x08, vec![0x08, 0x04, 0x00, ts, 0x13, 0x37, 0x40])), // 18
        ("data_244", d(None, None, 0x08, vec![0x79; 244])),                                         // 19
        ("diag_ext_device_cut", d(Some(62), Some(60), 0x08, vec![0x08, 0x04, 0x00, ts, 0x13, 0x37, 0x02])), // 20
        ("diag_ext_ident_cut", d(Some(62), Some(60), 0x08, vec![0x08, 0x04, 0x00, ts, 0x13, 0x37, 0x43, 0x01])), // 21
        ("diag_ext_channel_cut", d(Some(62), Some(60), 0x08, vec![0x08, 0x04, 0x00, ts, 0x13, 0x37, 0x81, 0x00])), // 22
        // a cut-off block that is NOT the first one and announces fewer bytes than the whole extended area
        // holds (a cut-off check against the whole buffer instead of the remainder lets it through)
        ("diag_ext_2nd_ident_cut", d(Some(62), Some(60), 0x08, vec![0x08, 0x04, 0x00, ts, 0x13, 0x37, 0x04, 0xAA, 0xBB, 0xCC, 0x45, 0x01, 0x00])), // 23
        ("diag_ext_2nd_device_cut", d(Some(62), Some(60), 0x08, vec![0x08, 0x04, 0x00, ts, 0x13, 0x37, 0x43, 0x01, 0x02, 0x04, 0xAA])), // 24
        ("diag_ext_2nd_channel_cut", d(Some(62), Some(60), 0x08, vec![0x08, 0x04, 0x00, ts, 0x13, 0x37, 0x42, 0x01, 0x81, 0x00])), // 25
    ]
}

pub fn out_pattern(p: u8, len: usize) -> Vec<u8> {
    (0..len).map(|i| match p { 0 => 0x00, 1 => 0xFF, 2 => (i as u8).wrapping_add(1), _ => [0x10, 0x68, 0xA2, 0xDC, 0xE5, 0x16][i % 6] }).collect()
}

// ------------------------------------------------------------------------------------------------
// Monitors

#[derive(Clone, Debug, Default, PartialEq, Eq)]
pub struct PerMon {
    // C03: bring-up phase 0..4
    pub phase: u8,
    // C08
    pub last_req: Option<Vec<u8>>, // last acknowledged-service request bytes to this peripheral
    pub last_req_genuine_reply: bool, // the reference slave's own (well-formed) reply to it was delivered
    pub last_req_any_reply: bool,
    pub expect_first: bool,        // next request must carry FCV=0/FCB=1
    pub same_count: u8,            // transmissions of the identical request without a delivered reply
    pub probing: bool,             // after Offline: only Slave_Diag until one is answered
    pub offline_events_since_exhaust: u8,
    pub exhausted: bool,
    pub await_offline: bool,
    // C14 life-cycle: 0 Off, 1 Live, 2 Configured, 3 Running
    pub life: u8,
    pub live_seen: bool,
    // C14: had its turn in the current cycle
    pub turn_done: bool,
}

#[derive(Clone, Debug, Default)]
pub struct Monitors {
    pub per: Vec<PerMon>,
    // C14
    pub cycle_cursor: usize, // index of the peripheral whose turn it may be (slot order)
    pub current_turn: Option<usize>,
    pub requests_this_turn: u8,
    pub first_req_this_turn: Option<Vec<u8>>,
    pub cycles_completed: u64,
    /// the user reset the peripheral (reset_address) while its request was outstanding: the reply that
    /// arrives belongs to a request of the peripheral's previous life — it may be ignored
    pub stale_outstanding: bool,
}

pub struct Exec {
    pub cfg: Arc<W4Cfg>,
    pub rig: Rig,
    pub slaves: Vec<RefSlave>,
    pub outstanding: Option<(usize, Sent)>,
    pub mon: Monitors,
    pub path: Vec<Act>,
    pub dead: bool,
    pub idle: bool,
    pub deviations: u8,
    /// trace of the last action (for counterexample printing)
    pub log: Vec<String>,
    pub verbose: bool,
    /// number of DataExchanged events per peripheral (for C07)
    pub dx_events: Vec<u32>,
    pub last_events: Vec<(usize, PeripheralEvent)>,
    pub events_log: Vec<(usize, PeripheralEvent)>,
    pub died_of: Option<String>,
}

/// (destination, DSAP, SSAP, function code) of a request
fn service_key(bytes: &[u8]) -> (u8, Option<u8>, Option<u8>, u8) {
    match rc::decode(bytes) {
        rc::RDec::Frame(rc::RFrame::Data { da, dsap, ssap, fc, .. }, _) => (da, dsap, ssap, fc),
        _ => (255, None, None, 0),
    }
}

fn service_name(f: &rc::RFrame) -> &'static str {
    match classify(f) {
        SlaveService::Diag => "Slave_Diag",
        SlaveService::SetPrm => "Set_Prm",
        SlaveService::ChkCfg => "Chk_Cfg",
        SlaveService::DataExchange => "Data_Exchange",
        SlaveService::GlobalControl => "Global_Control",
        SlaveService::Other => "other",
    }
}

impl Exec {
    pub fn new(cfg: &Arc<W4Cfg>) -> Exec {
        Self::new_verbose(cfg, false)
    }

    pub fn new_verbose(cfg: &Arc<W4Cfg>, verbose: bool) -> Exec {
        let rig = if cfg.late_add && !cfg.rig.periphs.is_empty() {
            let mut rc2 = cfg.rig.clone();
            rc2.periphs.pop();
            let mut r = Rig::new(&rc2);
            r.cfg = cfg.rig.clone();
            r
        } else {
            Rig::new(&cfg.rig)
        };
        let mut slaves = vec![];
        for (i, p) in cfg.rig.periphs.iter().enumerate() {
            let mut s = RefSlave::new(p);
            match cfg.slave_dev.get(i).copied().unwrap_or(0) {
                1 => s.cfg = vec![0x99],
                2 => s.ident = p.ident ^ 0x0101,
                4 => {
                    // owned by a foreign DP master (#1) and in data exchange with it: diagnostics name master 1,
                    // our Set_Prm is acknowledged but not executed, our Data_Exchange is refused (RS)
                    s.master = Some(1);
                    s.state = crate::dprig::SlaveState::DataExch;
                }
                _ => {}
            }
            slaves.push(s);
        }
        let n = cfg.rig.periphs.len();
        let mut e = Exec {
            cfg: cfg.clone(),
            rig,
            slaves,
            outstanding: None,
            mon: Monitors { per: vec![PerMon { expect_first: true, ..Default::default() }; n], ..Default::default() },
            path: vec![],
            dead: false,
            idle: false,
            deviations: 0,
            log: vec![],
            verbose,
            dx_events: vec![0; n],
            last_events: vec![],
            events_log: vec![],
            died_of: None,
        };
        e.advance();
        e
    }

    pub fn replay_json(&self) -> Value {
        json!({"world": "w4", "cfg": cfg_to_json(&self.cfg), "path": self.path.iter().map(|a| a.name()).collect::<Vec<_>>()})
    }

    fn violation(&mut self, sig: &str, detail: String) {
        if self.verbose {
            self.log.push(format!("!! VIOLATION {sig}: {detail}"));
        }
        let known = ctx().violation(sig.to_string(), format!("{detail} [path: {}]", self.path.iter().map(|a| a.name()).collect::<Vec<_>>().join(" ")), self.replay_json(), self.path.len() as u64);
        if !known {
            // keep exploring other branches; this branch is finished
        }
        self.dead = true;
    }

    fn panic_seen(&mut self, whence: &str, p: PanicInfo) {
        ctx().panics_cut.fetch_add(1, std::sync::atomic::Ordering::Relaxed);
        self.died_of = Some(format!("{} ({}:{} {})", p.sig(), p.file, p.line, p.msg));
        if matches!(self.cfg.mon, Mon::C05 | Mon::C14 | Mon::C04) {
            let sig = format!("{}.{}", match self.cfg.mon { Mon::C05 => "c05.dp", Mon::C14 => "c14", _ => "c04" }, p.sig());
            self.violation(&sig, format!("panic in {whence}: {}:{} {}", p.file, p.line, p.msg));
        }
        if self.cfg.mon == Mon::C07 {
            // a master that stopped working brings nobody back into data exchange
            let sig = format!("c07.master_died.{}", p.sig());
            self.violation(&sig, format!("panic in {whence}: {}:{} {}", p.file, p.line, p.msg));
        }
        self.dead = true;
    }

    fn tick(&mut self) {
        self.rig.advance(1);
    }

    fn live_flags(&mut self) -> Vec<(bool, bool)> {
        let present = self.rig.handles.len();
        (0..self.cfg.rig.periphs.len()).map(|i| if i < present { let p = self.rig.periph(i); (p.is_live(), p.is_running()) } else { (false, false) }).collect()
    }

    fn images(&mut self) -> Vec<(Vec<u8>, Vec<u8>)> {
        let present = self.rig.handles.len();
        (0..self.cfg.rig.periphs.len()).map(|i| if i < present { let p = self.rig.periph(i); (p.pi_i().to_vec(), p.pi_q().to_vec()) } else { (vec![], vec![]) }).collect()
    }

    /// Take events after a callback and feed the event monitors.
    fn after_callback(&mut self, before: &[(bool, bool)], what: &str) -> profirust::dp::DpEvents {
        let ev = self.rig.events();
        let after = self.live_flags();
        self.last_events.clear();
        if let Some((h, e)) = ev.peripheral {
            let idx = self.rig.handles.iter().position(|x| *x == h);
            if self.verbose {
                self.log.push(format!("      event {:?} for #{}", e, h.address()));
            }
            match idx {
                Some(i) => {
                    self.last_events.push((i, e));
                    self.events_log.push((i, e));
                    if e == PeripheralEvent::DataExchanged {
                        self.dx_events[i] += 1;
                    }
                }
                None => {
                    if self.cfg.mon == Mon::C14 {
                        self.violation("c14.event_for_unknown_handle", format!("{what}: event {e:?} for handle {h:?}"));
                    }
                }
            }
        }
        if ev.cycle_completed {
            self.mon.cycles_completed += 1;
        }
        if self.cfg.mon == Mon::C14 {
            self.c14_events(before, &after, &ev, what);
        }
        if self.cfg.mon == Mon::C08 {
            self.c08_events();
        }
        if self.cfg.mon == Mon::C03 {
            for (i, e) in self.last_events.clone() {
                if matches!(e, PeripheralEvent::Offline | PeripheralEvent::ParameterError | PeripheralEvent::ConfigError) {
                    self.mon.per[i].phase = 0;
                }
            }
        }
        ev
    }

    /// Call transmit_telegram until a request that expects a reply is outstanding, or the master is idle.
    pub fn advance(&mut self) {
        let mut nones = 0;
        let mut sdn = 0;
        self.idle = false;
        loop {
            if self.dead {
                return;
            }
            self.tick();
            let before = self.live_flags();
            let images_before = self.images();
            let hp = self.cfg.high_prio;
            let cfgj = self.replay_json();
            let r = guarded(move || cfgj.clone(), || catch(|| self.rig.transmit(hp)));
            let r = match r {
                Ok(r) => r,
                Err(p) => {
                    self.panic_seen("transmit_telegram", p);
                    return;
                }
            };
            if self.verbose {
                self.log.push(match &r {
                    None => "   master: (declines, end of turn)".into(),
                    Some(s) => format!("   master -> {} [{}] {}", s.frame.da().unwrap_or(255), service_name(&s.frame), hex(&s.bytes[..s.bytes.len().min(24)])),
                });
            }
            let ev = self.after_callback(&before, "transmit_telegram");
            if self.dead {
                return;
            }
            // images must not change in transmit_telegram
            if self.cfg.mon == Mon::C04 {
                let images_after = self.images();
                if images_after != images_before {
                    self.violation("c04.image_changed_in_transmit", "a process image changed during transmit_telegram".into());
                    return;
                }
            }
            match r {
                None => {
                    nones += 1;
                    if self.cfg.mon == Mon::C14 {
                        self.c14_turn_end(ev.cycle_completed);
                    }
                    if self.cfg.gc_every_visit {
                        let s = self.rig.slot_us();
                        self.rig.advance(50 * s + 1);
                    }
                    if nones >= 3 {
                        self.idle = true;
                        return;
                    }
                }
                Some(sent) => {
                    if self.cfg.mon == Mon::C14 && ev.cycle_completed {
                        self.violation("c14.cycle_completed_with_transmission", "cycle_completed reported by a callback that started a transmission".into());
                        return;
                    }
                    match sent.expects_reply {
                        None => {
                            sdn += 1;
                            self.on_sdn(&sent);
                            if sdn > 6 {
                                if matches!(self.cfg.mon, Mon::C14 | Mon::C05) {
                                    self.violation("c14.turn_does_not_end", "more than 6 unacknowledged telegrams in a row".into());
                                }
                                if self.cfg.mon == Mon::C07 {
                                    self.violation("c07.master_only_broadcasts", "more than 6 unacknowledged telegrams in a row: no peripheral is addressed any more".into());
                                }
                                self.dead = true;
                                return;
                            }
                        }
                        Some(addr) => {
                            let idx = self.cfg.rig.periphs.iter().position(|p| p.addr == addr);
                            match idx {
                                Some(i) => {
                                    self.on_request(i, &sent, &images_before[i].1, before[i].0);
                                    if self.dead {
                                        return;
                                    }
                                    self.outstanding = Some((i, sent));
                                    return;
                                }
                                None => {
                                    self.violation(&format!("{:?}.request_to_unconfigured_address", self.cfg.mon).to_lowercase(), format!("request to #{addr}"));
                                    return;
                                }
                            }
                        }
                    }
                }
            }
        }
    }

    fn on_sdn(&mut self, sent: &Sent) {
        // Global_Control: broadcast, SDN, DSAP 58 / SSAP 62, 2 bytes
        if matches!(self.cfg.mon, Mon::C14 | Mon::C03) {
            let ok = matches!(&sent.frame, rc::RFrame::Data { da: 127, dsap: Some(58), ssap: Some(62), du, fc, .. } if du.len() == 2 && fc & 0x4F == 0x44);
            if !ok {
                self.violation("c14.unexpected_unacknowledged_telegram", format!("{}", sent.frame.short()));
            }
        }
    }

    pub fn enabled(&self, a: Act) -> bool {
        if self.dead {
            return false;
        }
        let n = self.cfg.rig.periphs.len() as u8;
        match a {
            Act::UserDiag(i) | Act::UserWrite(i, _) | Act::ResetAddr(i) => i < n && (i as usize) < self.rig.handles.len(),
            Act::AddLate => self.cfg.late_add && self.rig.handles.len() < self.cfg.rig.periphs.len(),
            Act::LongPause | Act::EnterOperate => true,
            Act::Answer if self.outstanding.is_none() => true, // "visit again"
            _ => self.outstanding.is_some(),
        }
    }

    pub fn apply(&mut self, a: Act) {
        self.path.push(a);
        if a != Act::Answer {
            self.deviations = self.deviations.saturating_add(1);
        }
        if self.verbose {
            self.log.push(format!("-- action {}", a.name()));
        }
        match a {
            Act::EnterOperate => {
                let rig = &mut self.rig;
                if let Err(pn) = catch(|| rig.dp.enter_operate()) {
                    self.panic_seen("DpMaster::enter_operate", pn);
                }
                return;
            }
            Act::ResetAddr(i) => {
                let addr = self.cfg.rig.periphs[i as usize].addr;
                let images_before = self.images();
                let rig = &mut self.rig;
                if let Err(pn) = catch(|| rig.periph(i as usize).reset_address(addr)) {
                    self.panic_seen("Peripheral::reset_address", pn);
                    return;
                }
                if matches!(&self.outstanding, Some((k, _)) if *k == i as usize) {
                    self.mon.stale_outstanding = true;
                }
                let images_after = self.images();
                if self.cfg.mon == Mon::C04 && images_after != images_before {
                    self.violation("c04.image_changed_by_reset_address", format!("reset_address() changed a process image: before {:?}, after {:?}", images_before, images_after));
                }
                return;
            }
            Act::UserDiag(i) => {
                self.rig.periph(i as usize).request_diagnostics();
                return;
            }
            Act::UserWrite(i, p) => {
                let per = self.rig.periph(i as usize);
                let pat = out_pattern(p, per.pi_q().len());
                per.pi_q_mut().copy_from_slice(&pat);
                return;
            }
            Act::LongPause => {
                let s = self.rig.slot_us();
                self.rig.advance(50 * s + 1);
                return;
            }
            Act::AddLate => {
                let p = self.cfg.rig.periphs.last().unwrap().clone();
                match catch(|| self.rig.dp.add(make_peripheral(&p))) {
                    Ok(h) => self.rig.handles.push(h),
                    Err(pn) => self.panic_seen("DpMaster::add", pn),
                }
                // an idle master (no peripherals before) gets going at its next turn
                if self.outstanding.is_none() && !self.dead {
                    self.advance();
                }
                return;
            }
            _ => {}
        }
        let (idx, sent) = match self.outstanding.take() {
            Some(x) => x,
            None => {
                self.advance();
                return;
            }
        };
        let addr = self.cfg.rig.periphs[idx].addr;
        self.tick();
        // slave deviation 3: the station does not exist — every request to it times out, whatever the action
        let a = if self.cfg.slave_dev.get(idx).copied() == Some(3) { Act::ReqLost } else { a };
        match a {
            Act::ReqLost => self.do_timeout(idx, &sent, addr),
            Act::ReplyLost => {
                let _ = self.slaves[idx].handle(&sent.frame);
                self.do_timeout(idx, &sent, addr);
            }
            Act::NoCallback => {
                let _ = self.slaves[idx].handle(&sent.frame);
                self.on_no_reply(idx, &sent);
            }
            Act::Malformed(k) => {
                let _ = self.slaves[idx].handle(&sent.frame);
                let cat = catalogue(self.cfg.rig.ts, addr, self.cfg.rig.periphs[idx].in_len);
                let bytes = cat[k as usize % cat.len()].1.clone();
                self.deliver(idx, &sent, addr, &bytes, false);
            }
            Act::Answer | Act::PowerCycle | Act::PrmReq | Act::NotReady | Act::DiagPending | Act::ExtDiag | Act::InputChange(_) => {
                match a {
                    Act::PowerCycle => self.slaves[idx].power_cycle(),
                    Act::PrmReq => self.slaves[idx].force_prm_req = true,
                    Act::NotReady => self.slaves[idx].not_ready_left = 2,
                    Act::DiagPending => self.slaves[idx].diag_pending = true,
                    Act::ExtDiag => self.slaves[idx].ext_diag = vec![0x42, 0x01],
                    Act::InputChange(p) => {
                        let l = self.slaves[idx].in_len;
                        self.slaves[idx].inputs = out_pattern(p, l);
                    }
                    _ => {}
                }
                match self.slaves[idx].handle(&sent.frame) {
                    Some(bytes) => self.deliver(idx, &sent, addr, &bytes, true),
                    None => self.do_timeout(idx, &sent, addr),
                }
            }
            _ => unreachable!(),
        }
        // whatever happened to the outstanding request, it is resolved now
        self.mon.stale_outstanding = false;
        if !self.dead {
            self.advance();
        }
    }

    fn do_timeout(&mut self, idx: usize, sent: &Sent, addr: u8) {
        let before = self.live_flags();
        let images_before = self.images();
        if self.verbose {
            self.log.push(format!("   (no reply from #{addr}: time-out)"));
        }
        if let Err(p) = catch(|| self.rig.timeout(addr)) {
            self.panic_seen("handle_timeout", p);
            return;
        }
        self.after_callback(&before, "handle_timeout");
        if self.cfg.mon == Mon::C04 && self.images() != images_before {
            self.violation("c04.image_changed_on_timeout", "a process image changed during handle_timeout".into());
        }
        self.on_no_reply(idx, sent);
    }

    fn deliver(&mut self, idx: usize, sent: &Sent, addr: u8, bytes: &[u8], genuine: bool) {
        if !self.rig.fdl_admits(addr, bytes) {
            // the FDL layer would not hand this to the application
            self.on_no_reply(idx, sent);
            return;
        }
        let before = self.live_flags();
        let images_before = self.images();
        if self.verbose {
            self.log.push(format!("   #{addr} -> master: {}", hex(&bytes[..bytes.len().min(24)])));
        }
        if let Err(p) = catch(|| self.rig.reply(addr, bytes)) {
            self.panic_seen("receive_reply", p);
            return;
        }
        let ev = self.after_callback(&before, "receive_reply");
        if self.dead {
            return;
        }
        let images_after = self.images();
        self.on_reply(idx, sent, bytes, genuine, &images_before, &images_after, &ev);
    }

    // ---------------------------------------------------------------------------------------------
    // property monitors

    fn on_request(&mut self, i: usize, sent: &Sent, pi_q_before: &[u8], live_before: bool) {
        match self.cfg.mon {
            Mon::C03 => self.c03_request(i, sent),
            Mon::C04 => self.c04_request(i, sent, pi_q_before),
            Mon::C08 => self.c08_request(i, sent, live_before),
            Mon::C14 => self.c14_request(i, sent),
            _ => {}
        }
    }

    fn on_no_reply(&mut self, i: usize, _sent: &Sent) {
        if self.cfg.mon == Mon::C08 && self.mon.per[i].exhausted {
            self.mon.per[i].await_offline = true;
        }
    }

    fn on_reply(&mut self, i: usize, sent: &Sent, bytes: &[u8], genuine: bool, ib: &[(Vec<u8>, Vec<u8>)], ia: &[(Vec<u8>, Vec<u8>)], ev: &profirust::dp::DpEvents) {
        match self.cfg.mon {
            Mon::C03 => self.c03_reply(i, sent, bytes),
            Mon::C04 => self.c04_reply(i, sent, bytes, ib, ia, ev),
            Mon::C08 => {
                let _ = genuine;
                let acceptable = self.acceptable_reply(i, sent, bytes);
                let m = &mut self.mon.per[i];
                m.last_req_any_reply = true;
                if acceptable {
                    m.last_req_genuine_reply = true;
                }
                // a well-formed diagnostics reply ends the probing phase
                if acceptable && classify(&sent.frame) == SlaveService::Diag {
                    m.probing = false;
                }
            }
            _ => {}
        }
    }

    /// Is this the reply the service asks for (so that the master has to accept it)?
    fn acceptable_reply(&self, i: usize, sent: &Sent, bytes: &[u8]) -> bool {
        let reply = match rc::decode(bytes) {
            rc::RDec::Frame(f, _) => f,
            _ => return false,
        };
        let in_len = self.cfg.rig.periphs[i].in_len;
        match classify(&sent.frame) {
            SlaveService::Diag => matches!(&reply, rc::RFrame::Data { dsap: Some(62), ssap: Some(60), du, fc, .. } if du.len() >= 6 && fc & 0x40 == 0),
            SlaveService::SetPrm | SlaveService::ChkCfg => reply == rc::RFrame::Sc,
            SlaveService::DataExchange => match &reply {
                rc::RFrame::Sc => in_len == 0,
                rc::RFrame::Data { dsap: None, ssap: None, fc, du, .. } => matches!(fc & 0x4F, 0x00 | 0x08 | 0x0A) && du.len() == in_len,
                _ => false,
            },
            _ => false,
        }
    }

    // ---- C03 -----------------------------------------------------------------------------------

    fn expected_set_prm(&self, i: usize) -> Vec<u8> {
        let p = &self.cfg.rig.periphs[i];
        let mut b0 = 0x80u8;
        if p.sync {
            b0 |= 0x20;
        }
        if p.freeze {
            b0 |= 0x10;
        }
        if self.cfg.rig.watchdog_ms.is_some() {
            b0 |= 0x08;
        }
        let mut v = vec![b0, 0, 0, self.cfg.rig.min_tsdr, (p.ident >> 8) as u8, p.ident as u8, p.groups];
        v.extend_from_slice(p.user_prm.as_deref().unwrap_or(&[]));
        v
    }

    fn c03_request(&mut self, i: usize, sent: &Sent) {
        let ts = self.cfg.rig.ts;
        let (dsap, ssap, fc, du) = match &sent.frame {
            rc::RFrame::Data { dsap, ssap, fc, du, sa, .. } if *sa == ts => (*dsap, *ssap, *fc, du.clone()),
            o => {
                self.violation("c03.request_shape", format!("unexpected request {}", o.short()));
                return;
            }
        };
        match classify(&sent.frame) {
            SlaveService::DataExchange => {
                if self.mon.per[i].phase < 4 {
                    let ph = self.mon.per[i].phase;
                    self.violation(&format!("c03.data_exchange_before_bringup_complete.phase{ph}"), format!("Data_Exchange request to #{} in bring-up phase P{ph}", self.cfg.rig.periphs[i].addr));
                    return;
                }
                if fc & 0x4F != 0x4D {
                    self.violation("c03.data_exchange_function_code", format!("fc {fc:#04x} is not SRD high"));
                }
            }
            SlaveService::SetPrm => {
                // the master (re)starts parameterisation: everything after it has to be redone
                if self.mon.per[i].phase >= 1 {
                    self.mon.per[i].phase = 1;
                }
                if ssap != Some(62) || fc & 0x4F != 0x4C {
                    self.violation("c03.set_prm_saps", format!("DSAP {dsap:?} SSAP {ssap:?} fc {fc:#04x}"));
                    return;
                }
                let exp = self.expected_set_prm(i);
                let mut got = du.clone();
                // watchdog factors are judged by the inequality, not by value
                let wd_ok = match self.cfg.rig.watchdog_ms {
                    None => got.get(1) == Some(&0) && got.get(2) == Some(&0),
                    Some(ms) => {
                        let (f1, f2) = (got.get(1).copied().unwrap_or(0) as u64, got.get(2).copied().unwrap_or(0) as u64);
                        f1 >= 1 && f2 >= 1 && f1 * f2 * 10 >= ms && f1 * f2 * 10 <= ms.max(10) * 2 + 2550
                    }
                };
                if got.len() >= 3 {
                    got[1] = 0;
                    got[2] = 0;
                }
                if got != exp || !wd_ok {
                    self.violation("c03.set_prm_bytes", format!("Set_Prm PDU {} expected {} (watchdog factors ok: {wd_ok})", hex(&du), hex(&exp)));
                }
            }
            SlaveService::ChkCfg => {
                if ssap != Some(62) || fc & 0x4F != 0x4C {
                    self.violation("c03.chk_cfg_saps", format!("DSAP {dsap:?} SSAP {ssap:?} fc {fc:#04x}"));
                    return;
                }
                let exp = self.cfg.rig.periphs[i].config.clone().unwrap_or_default();
                if du != exp {
                    self.violation("c03.chk_cfg_bytes", format!("Chk_Cfg PDU {} expected {}", hex(&du), hex(&exp)));
                }
            }
            SlaveService::Diag => {
                if ssap != Some(62) || !du.is_empty() {
                    self.violation("c03.diag_request_shape", format!("SSAP {ssap:?} du {}", hex(&du)));
                }
            }
            _ => self.violation("c03.unknown_service", sent.frame.short()),
        }
    }

    fn c03_reply(&mut self, i: usize, sent: &Sent, bytes: &[u8]) {
        let reply = match rc::decode(bytes) {
            rc::RDec::Frame(f, _) => f,
            _ => return,
        };
        let ph = self.mon.per[i].phase;
        let diag_flags = match &reply {
            rc::RFrame::Data { dsap: Some(62), ssap: Some(60), du, fc, .. } if du.len() >= 6 && fc & 0x40 == 0 => Some(u16::from_le_bytes([du[0], du[1]])),
            _ => None,
        };
        let is_sc = reply == rc::RFrame::Sc;
        // Phases advance only on what the statement names; they fall back only when the master
        // itself considers the peripheral offline (events) or restarts parameterisation (Set_Prm).
        let new = match (classify(&sent.frame), ph) {
            (SlaveService::Diag, 0) if diag_flags.is_some() => 1,
            (SlaveService::SetPrm, 1) if is_sc => 2,
            (SlaveService::ChkCfg, 2) if is_sc => 3,
            (SlaveService::Diag, 3) => match diag_flags {
                Some(f) if f & (0x0040 | 0x0004 | 0x0100 | 0x0002) == 0 => 4,
                // "… or asked to be (re-)parameterised": a parameter request in the validating diagnostics
                // puts the bring-up back to "diagnostics answered" — Set_Prm and Chk_Cfg have to be
                // acknowledged again. (In data exchange a conforming slave signals the same thing by
                // answering Data_Exchange with RS; a Prm_Req flag in a diagnostics reply there is not judged.)
                Some(f) if f & 0x0100 != 0 => 1,
                _ => 3,
            },
            (_, p) => p,
        };
        self.mon.per[i].phase = new;
    }

    // ---- C04 -----------------------------------------------------------------------------------

    fn c04_request(&mut self, i: usize, sent: &Sent, pi_q_before: &[u8]) {
        if classify(&sent.frame) == SlaveService::DataExchange {
            if let rc::RFrame::Data { du, .. } = &sent.frame {
                let expect: Vec<u8> = if self.cfg.rig.operate { pi_q_before.to_vec() } else { vec![0; pi_q_before.len()] };
                if *du != expect {
                    self.violation("c04.request_not_output_image", format!("Data_Exchange PDU {} but pi_q() = {}", hex(&du[..du.len().min(16)]), hex(&expect[..expect.len().min(16)])));
                }
            }
        }
    }

    fn c04_reply(&mut self, i: usize, sent: &Sent, bytes: &[u8], ib: &[(Vec<u8>, Vec<u8>)], ia: &[(Vec<u8>, Vec<u8>)], _ev: &profirust::dp::DpEvents) {
        let reply = match rc::decode(bytes) {
            rc::RDec::Frame(f, _) => f,
            _ => return,
        };
        let in_len = self.cfg.rig.periphs[i].in_len;
        let is_dx = classify(&sent.frame) == SlaveService::DataExchange;
        // does this reply qualify as a well-formed Data_Exchange reply of exactly the configured length?
        let good_payload: Option<Vec<u8>> = match &reply {
            rc::RFrame::Data { dsap: None, ssap: None, fc, du, .. } if is_dx && matches!(fc & 0x4F, 0x00 | 0x08 | 0x0A) && du.len() == in_len => Some(du.clone()),
            _ => None,
        };
        let good_sc = is_dx && reply == rc::RFrame::Sc && in_len == 0;
        let dx_event = self.last_events.iter().any(|(k, e)| *k == i && *e == PeripheralEvent::DataExchanged);
        for k in 0..ib.len() {
            if ib[k].1 != ia[k].1 {
                self.violation("c04.output_image_changed_by_reply", format!("pi_q of peripheral {k} changed"));
                return;
            }
            if k != i && ib[k].0 != ia[k].0 {
                self.violation("c04.other_peripheral_image_changed", format!("reply for peripheral {i} changed pi_i of peripheral {k}"));
                return;
            }
        }
        if std::mem::take(&mut self.mon.stale_outstanding) {
            // only the "changes only when" direction is judged for a reply to a request from before the reset
            if ia[i].0 != ib[i].0 && good_payload.as_ref() != Some(&ia[i].0) {
                self.violation("c04.input_image_changed_without_good_reply", "pi_i changed on a reply that is not a well-formed Data_Exchange reply".into());
            }
            return;
        }
        match (&good_payload, good_sc) {
            (Some(p), _) => {
                if ia[i].0 != *p {
                    self.violation("c04.input_image_not_updated", format!("pi_i = {} after reply payload {}", hex(&ia[i].0[..ia[i].0.len().min(16)]), hex(&p[..p.len().min(16)])));
                } else if !dx_event {
                    self.violation("c04.no_data_exchanged_event", "well-formed Data_Exchange reply but no DataExchanged event".into());
                } else {
                    ctx().witness("c04_good_update");
                }
            }
            (None, true) => {
                if !dx_event {
                    self.violation("c04.no_data_exchanged_event_sc", "SC for an input-less peripheral but no DataExchanged event".into());
                } else {
                    ctx().witness("c04_sc_update");
                }
            }
            (None, false) => {
                if ib[i].0 != ia[i].0 {
                    self.violation("c04.input_image_changed_by_bad_reply", format!("reply {} changed pi_i", reply.short()));
                } else if dx_event {
                    self.violation("c04.data_exchanged_event_without_update", format!("DataExchanged reported for reply {} to a {} request", reply.short(), service_name(&sent.frame)));
                } else {
                    ctx().witness("c04_bad_reply_rejected");
                }
            }
        }
    }

    // ---- C08 -----------------------------------------------------------------------------------

    fn c08_request(&mut self, i: usize, sent: &Sent, live_before: bool) {
        let max = self.cfg.rig.max_retry;
        if self.mon.per[i].await_offline {
            self.violation("c08.no_offline_event_after_retries", format!("request to #{} although {} transmissions went unanswered and no Offline event was raised", self.cfg.rig.periphs[i].addr, 1 + max));
            return;
        }
        let fc = sent.frame.fc().unwrap();
        let (fcv, fcb) = (fc & 0x10 != 0, fc & 0x20 != 0);
        let svc = classify(&sent.frame);
        let m = self.mon.per[i].clone();
        if m.expect_first {
            if fcv || !fcb {
                self.violation("c08.first_request_not_fcv0_fcb1", format!("first request after start-up/offline to #{} has FCV={} FCB={}", self.cfg.rig.periphs[i].addr, fcv as u8, fcb as u8));
                return;
            }
        }
        if m.probing && svc != SlaveService::Diag {
            self.violation("c08.non_diag_while_offline", format!("{} sent to a peripheral that was declared offline and has not answered a diagnostics request", service_name(&sent.frame)));
            return;
        }
        if let Some(prev) = &m.last_req {
            let pfc = match rc::decode(prev) {
                rc::RDec::Frame(f, _) => f.fc().unwrap(),
                _ => 0,
            };
            let same_bits = (pfc & 0x30) == (fc & 0x30);
            if m.last_req_genuine_reply && !m.expect_first {
                // a well-formed reply was delivered: the bit must toggle, with FCV=1
                if !fcv || (pfc & 0x20) == (fc & 0x20) {
                    self.violation("c08.no_toggle_after_reply", format!("request after a delivered well-formed reply: previous fc {pfc:#04x}, now {fc:#04x}"));
                    return;
                }
            }
            if same_bits && !m.expect_first {
                // must be a retransmission: same service and destination (the payload may differ when
                // the user wrote new outputs in between)
                if service_key(prev) != service_key(&sent.bytes) {
                    self.violation("c08.same_fcb_different_request", format!("consecutive requests with the same frame count bit differ: {} then {}", hex(&prev[..prev.len().min(12)]), hex(&sent.bytes[..sent.bytes.len().min(12)])));
                    return;
                }
            }
        }
        let mm = &mut self.mon.per[i];
        // retry accounting: identical request without any delivered reply in between
        // (probes of a peripheral that is not live are single shots, one per cycle, not retransmissions)
        if live_before && mm.last_req.as_deref().map(service_key) == Some(service_key(&sent.bytes)) && !mm.last_req_any_reply && !mm.expect_first {
            mm.same_count += 1;
        } else {
            mm.same_count = 1;
        }
        if mm.same_count > 1 + max {
            let n = mm.same_count;
            self.violation("c08.too_many_transmissions", format!("unanswered request transmitted {n} times with max_retry_limit {max}"));
            return;
        }
        mm.exhausted = live_before && mm.same_count == 1 + max;
        mm.last_req = Some(sent.bytes.clone());
        mm.last_req_any_reply = false;
        mm.last_req_genuine_reply = false;
        mm.expect_first = false;
    }

    fn c08_events(&mut self) {
        for (i, e) in self.last_events.clone() {
            if e == PeripheralEvent::Offline {
                // "exactly one Offline event is raised and the peripheral is only probed with diagnostics requests
                // until it answers": while no probe has been answered, a further Offline event is a duplicate —
                // whether or not (unanswered) probes were sent in between
                if self.mon.per[i].probing {
                    self.violation("c08.duplicate_offline_event", format!("second Offline event for peripheral {i} without an answered request in between"));
                    return;
                }
                // "... an unanswered request is transmitted at most 1+max_retry_limit times, AFTER WHICH exactly
                // one Offline event is raised": an Offline event presupposes an unanswered request — not one
                // whose acceptable reply was delivered
                if self.mon.per[i].last_req.is_some() && self.mon.per[i].last_req_genuine_reply && !self.mon.per[i].probing {
                    self.violation("c08.offline_event_although_last_request_was_answered", format!("Offline event for peripheral {i} although the reply to its last request was delivered and acceptable"));
                    return;
                }
                let m = &mut self.mon.per[i];
                m.await_offline = false;
                m.exhausted = false;
                m.expect_first = true;
                m.probing = true;
                m.same_count = 0;
                m.last_req = None;
            }
        }
    }

    // ---- C14 -----------------------------------------------------------------------------------

    fn c14_request(&mut self, i: usize, sent: &Sent) {
        // slot order: the peripheral must not be before the cursor, and must not have had its turn
        if self.mon.current_turn == Some(i) {
            // same turn: must be a retransmission of the first request of this turn
            if self.mon.first_req_this_turn.as_deref() != Some(&sent.bytes[..]) {
                self.violation("c14.second_new_request_in_turn", format!("peripheral {i} got a second, different request within one turn"));
            }
            return;
        }
        if i < self.mon.cycle_cursor || self.mon.per[i].turn_done {
            self.violation("c14.turn_out_of_slot_order", format!("peripheral {i} gets a turn although the cycle cursor is at {}", self.mon.cycle_cursor));
            return;
        }
        // the previous turn owner is done
        if let Some(p) = self.mon.current_turn {
            self.mon.per[p].turn_done = true;
        }
        self.mon.current_turn = Some(i);
        self.mon.cycle_cursor = i;
        self.mon.first_req_this_turn = Some(sent.bytes.clone());
    }

    fn c14_turn_end(&mut self, cycle_completed: bool) {
        // `None` from transmit_telegram: either the cycle completed right now, or it was reported by the
        // preceding receive_reply and this is the hand-back.
        let _ = cycle_completed;
    }

    fn c14_cycle_completed(&mut self) {
        for p in self.mon.per.iter_mut() {
            p.turn_done = false;
        }
        self.mon.cycle_cursor = 0;
        self.mon.current_turn = None;
        self.mon.first_req_this_turn = None;
    }

    fn c14_events(&mut self, before: &[(bool, bool)], after: &[(bool, bool)], ev: &profirust::dp::DpEvents, what: &str) {
        let evs = self.last_events.clone();
        for i in 0..before.len() {
            let e: Option<PeripheralEvent> = evs.iter().find(|(k, _)| *k == i).map(|x| x.1);
            let (lb, _rb) = before[i];
            let (la, ra) = after[i];
            // accessor changes must be accompanied by the matching event
            if !lb && la && e != Some(PeripheralEvent::Online) {
                self.violation("c14.live_without_online_event", format!("{what}: peripheral {i} became live, event {e:?}"));
                return;
            }
            if lb && !la && !matches!(e, Some(PeripheralEvent::Offline | PeripheralEvent::ParameterError | PeripheralEvent::ConfigError)) {
                self.violation("c14.offline_without_event", format!("{what}: peripheral {i} stopped being live, event {e:?}"));
                return;
            }
            let life = self.mon.per[i].life;
            if let Some(e) = e {
                let new = match (e, life) {
                    (PeripheralEvent::Online, 0) => Some(1),
                    (PeripheralEvent::Configured, 1 | 2 | 3) => Some(2),
                    (PeripheralEvent::DataExchanged, 2 | 3) => Some(3),
                    (PeripheralEvent::Diagnostics, 2 | 3) => Some(life),
                    (PeripheralEvent::Offline, 1 | 2 | 3) => Some(0),
                    (PeripheralEvent::ParameterError | PeripheralEvent::ConfigError, 1 | 2 | 3) => Some(0),
                    _ => None,
                };
                match new {
                    Some(n) => self.mon.per[i].life = n,
                    None => {
                        self.violation(&format!("c14.event_out_of_lifecycle.{e:?}_in_{life}"), format!("{what}: event {e:?} for peripheral {i} in life-cycle state {life} (0 off,1 live,2 configured,3 running)"));
                        return;
                    }
                }
                if e == PeripheralEvent::Offline && !lb {
                    self.violation("c14.offline_event_while_not_live", format!("{what}: Offline for peripheral {i} that was not live"));
                    return;
                }
                if e == PeripheralEvent::DataExchanged && !ra {
                    self.violation("c14.data_exchanged_but_not_running", format!("{what}: DataExchanged for peripheral {i} but is_running() is false"));
                    return;
                }
            }
            let life = self.mon.per[i].life;
            if la != (life != 0) {
                self.violation("c14.is_live_disagrees_with_events", format!("{what}: is_live()={la} but the event history says life-cycle state {life}"));
                return;
            }
            if ra && life != 3 {
                self.violation("c14.is_running_disagrees_with_events", format!("{what}: is_running() but the event history says life-cycle state {life}"));
                return;
            }
        }
        if ev.cycle_completed {
            // every configured peripheral must have had exactly one turn (a turn may be silent on the
            // wire when the peripheral had nothing to send), in slot order — order and uniqueness are
            // checked in c14_request; here: completion closes the pass
            if let Some(p) = self.mon.current_turn {
                self.mon.per[p].turn_done = true;
            }
            for i in 0..after.len() {
                if after[i].1 && before[i].1 && !self.mon.per[i].turn_done {
                    self.violation("c14.running_peripheral_skipped", format!("{what}: cycle_completed reported but running peripheral {i} had no turn in this cycle"));
                    return;
                }
            }
            ctx().witness("c14_cycle_completed");
            self.c14_cycle_completed();
        }
    }

    // ---------------------------------------------------------------------------------------------

    pub fn fingerprint(&mut self) -> u64 {
        let mut b: Vec<u8> = Vec::with_capacity(512);
        let gc = profirust::time::Duration::from_micros(50 * self.rig.slot_us() as u64);
        b.extend_from_slice(self.rig.dp.verif_fingerprint(self.rig.now(), gc).as_bytes());
        for (_h, p) in self.rig.dp.iter() {
            b.extend_from_slice(format!("{:?}", p).as_bytes());
        }
        for s in &self.slaves {
            s.fingerprint_into(&mut b);
            b.extend_from_slice(&s.inputs);
        }
        match &self.outstanding {
            Some((i, s)) => {
                b.push(*i as u8);
                b.extend_from_slice(&s.bytes);
            }
            None => b.push(0xFE),
        }
        b.push(self.idle as u8);
        b.push(self.mon.stale_outstanding as u8);
        b.push(self.dead as u8);
        b.push(self.rig.handles.len() as u8);
        if self.cfg.dev_budget != 255 {
            b.push(self.deviations.min(self.cfg.dev_budget));
        }
        // monitor state (history variables)
        match self.cfg.mon {
            Mon::C03 => b.extend(self.mon.per.iter().map(|m| m.phase)),
            Mon::C08 => {
                for m in &self.mon.per {
                    b.extend_from_slice(format!("{:?}{}{}{}{}{}{}{}", m.last_req.as_ref().map(|r| fnv64(r)), m.last_req_genuine_reply, m.last_req_any_reply, m.expect_first, m.same_count, m.probing, m.exhausted, m.await_offline).as_bytes());
                }
            }
            Mon::C14 => {
                for m in &self.mon.per {
                    b.push(m.life);
                    b.push(m.turn_done as u8);
                }
                b.push(self.mon.cycle_cursor as u8);
                b.push(self.mon.current_turn.map(|x| x as u8).unwrap_or(255));
                b.extend_from_slice(&self.mon.first_req_this_turn.as_ref().map(|r| fnv64(r)).unwrap_or(0).to_le_bytes());
            }
            _ => {}
        }
        fnv64(&b)
    }
}

// ------------------------------------------------------------------------------------------------
// BFS world (forks by re-execution of the action history on a fresh master)

pub struct W4World {
    pub cfg: Arc<W4Cfg>,
    pub acts: Vec<Act>,
    pub fp: u64,
    pub deviations: u8,
    pub dead: bool,
}

/// Endurance: one long linear execution (no branching) with the monitors of `cfg.mon` on — every request is
/// answered, except that every 97th is lost, every 499th step is a power cycle of the slave and every
/// 101st a user diagnostics request: counters that wrap after 2^8 / 2^16 requests or cycles, state that
/// accumulates. Returns (steps executed, DP cycles completed); violations are reported by the monitors.
pub fn endurance_run(cfg: &Arc<W4Cfg>, steps: u32, faults: bool) -> (u32, u64) {
    let mut e = Exec::new(cfg);
    let mut done = 0;
    for k in 1..=steps {
        let a = if !faults {
            // (fault-free variant: nothing ever resets per-peripheral sequence state)
            Act::Answer
        } else if k % 499 == 0 {
            Act::PowerCycle
        } else if k % 97 == 0 {
            Act::ReqLost
        } else if k % 101 == 0 {
            Act::UserDiag(0)
        } else {
            Act::Answer
        };
        let a = if e.enabled(a) { a } else { Act::Answer };
        if e.dead || !e.enabled(a) {
            break;
        }
        e.apply(a);
        done = k;
        if e.dead {
            break;
        }
        // keep the replay artefact of a late violation small: the path is not needed beyond its length
        // (the hang watchdog renders the path before every callback: keep it short)
        if e.path.len() > 64 {
            e.path.drain(..32);
        }
    }
    (done, e.mon.cycles_completed)
}

pub fn run_path(cfg: &Arc<W4Cfg>, acts: &[Act]) -> Exec {
    let mut e = Exec::new(cfg);
    for a in acts {
        if e.dead || !e.enabled(*a) {
            e.dead = true;
            break;
        }
        e.apply(*a);
    }
    e
}

impl W4World {
    pub fn init(cfg: &Arc<W4Cfg>) -> Self {
        let mut e = Exec::new(cfg);
        let fp = e.fingerprint();
        W4World { cfg: cfg.clone(), acts: vec![], fp, deviations: 0, dead: e.dead }
    }
}

impl World for W4World {
    fn n_actions(&self) -> usize {
        if self.dead {
            0
        } else {
            self.cfg.acts.len()
        }
    }
    fn step(&self, a: usize, _path: &[u16]) -> Option<Self> {
        let act = self.cfg.acts[a];
        if act != Act::Answer && self.cfg.dev_budget != 255 && self.deviations >= self.cfg.dev_budget {
            return None;
        }
        let mut e = run_path(&self.cfg, &self.acts);
        if e.dead || !e.enabled(act) {
            return None;
        }
        e.apply(act);
        if e.dead {
            return None;
        }
        let fp = e.fingerprint();
        let mut acts = self.acts.clone();
        acts.push(act);
        Some(W4World { cfg: self.cfg.clone(), acts, fp, deviations: e.deviations, dead: false })
    }
    fn fingerprint(&self) -> u64 {
        self.fp
    }
    fn describe_action(&self, a: usize) -> String {
        self.cfg.acts[a].name()
    }
}

pub fn replay(v: &Value) {
    let r = &v["replay"];
    let cfg = Arc::new(cfg_from_json(&r["cfg"]));
    let acts: Vec<Act> = r["path"].as_array().unwrap().iter().map(|a| Act::parse(a.as_str().unwrap())).collect();
    println!("configuration: {}", serde_json::to_string(&r["cfg"]).unwrap());
    let mut e = Exec::new_verbose(&cfg, true);
    for l in e.log.drain(..) {
        println!("{l}");
    }
    for a in &acts {
        if e.dead || !e.enabled(*a) {
            println!("(action {} not enabled / branch ended)", a.name());
            break;
        }
        e.apply(*a);
        for l in e.log.drain(..) {
            println!("{l}");
        }
    }
    println!("final: dead={} idle={} outstanding={:?}", e.dead, e.idle, e.outstanding.as_ref().map(|(i, s)| (*i, s.frame.short())));
}
