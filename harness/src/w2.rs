//! World W2 — one real `FdlActiveStation` (plus applications) over BusSim against an adversarial bus
//! peer. Serves C05 (FDL totality), C11 (token hand-over rules).

use crate::bus::{BusSim, BIT};
use crate::engine::*;
use crate::refcodec as rc;
use profirust::fdl::{FdlActiveStation, FdlApplication, ParametersBuilder};
use profirust::time::Instant;
use serde_json::{json, Value};
use std::sync::Arc;

/// Every baud rate of the stack with its NOMINAL bit rate: the simulated bus and all timing oracles
/// use the number given here, never `Baudrate::to_rate()` (a slip in the library's rate table is
/// therefore a timing violation, not a consistent rescaling). New entries are appended so that the
/// indices stored in replay files stay valid.
pub const BAUDS: [(profirust::Baudrate, u64); 11] = [
    (profirust::Baudrate::B9600, 9600),
    (profirust::Baudrate::B19200, 19200),
    (profirust::Baudrate::B500000, 500000),
    (profirust::Baudrate::B1500000, 1500000),
    (profirust::Baudrate::B12000000, 12000000),
    (profirust::Baudrate::B31250, 31250),
    (profirust::Baudrate::B45450, 45450),
    (profirust::Baudrate::B93750, 93750),
    (profirust::Baudrate::B187500, 187500),
    (profirust::Baudrate::B3000000, 3000000),
    (profirust::Baudrate::B6000000, 6000000),
];
/// builder minimum of the slot time per BAUDS index
pub const MIN_SLOT: [u16; 11] = [100, 100, 200, 300, 1000, 100, 100, 100, 100, 400, 600];

#[derive(Clone, Copy, Debug, PartialEq, Eq, Hash)]
pub enum Gap {
    G11,
    G33,
    HalfSlot,
}

#[derive(Clone, Copy, Debug, PartialEq, Eq, Hash)]
pub enum WaitLen {
    HalfSlot,
    SlotPlus,
    TimeoutPlus,
}

#[derive(Clone, Debug, PartialEq, Eq, Hash)]
pub enum Sym {
    Tel(rc::RFrame, Gap),
    Raw(Vec<u8>, Gap),
    /// start talking while the station is still transmitting
    Collide(rc::RFrame),
    /// several telegrams back to back (33 bit times apart) that the station sees in ONE poll: the
    /// station is not polled until the last one is complete (a coarse poll schedule)
    Burst(Vec<Vec<u8>>),
    Wait(WaitLen),
    SetOffline,
    SetOnline,
    /// while the station is offline (the only time the documentation allows it) the user changes the list
    /// of applications: live list + scanner through poll_multi() <-> the live list alone through poll()
    SwitchApps,
    /// the host does not poll the station for this long (one gap between two polls), then polls it once
    NoPoll(WaitLen),
}

impl Sym {
    pub fn name(&self) -> String {
        match self {
            Sym::Tel(f, g) => format!("Tel[{} after {:?}]", f.short(), g),
            Sym::Raw(b, g) => format!("Raw[{} after {:?}]", hex(b), g),
            Sym::Collide(f) => format!("Collide[{}]", f.short()),
            Sym::Burst(b) => format!("Burst[{}]", b.iter().map(|x| hex(x)).collect::<Vec<_>>().join(" | ")),
            Sym::Wait(w) => format!("Wait[{:?}]", w),
            Sym::SetOffline => "set_offline".into(),
            Sym::SetOnline => "set_online".into(),
            Sym::SwitchApps => "switch_apps".into(),
            Sym::NoPoll(w) => format!("NoPoll[{:?}]", w),
        }
    }
    pub fn to_json(&self) -> Value {
        match self {
            Sym::Tel(f, g) => json!({"tel": hex(&rc::encode(f)), "gap": format!("{:?}", g)}),
            Sym::Raw(b, g) => json!({"raw": hex(b), "gap": format!("{:?}", g)}),
            Sym::Collide(f) => json!({"collide": hex(&rc::encode(f))}),
            Sym::Burst(b) => json!({"burst": b.iter().map(|x| hex(x)).collect::<Vec<_>>()}),
            Sym::Wait(w) => json!({"wait": format!("{:?}", w)}),
            Sym::SetOffline => json!("set_offline"),
            Sym::SetOnline => json!("set_online"),
            Sym::SwitchApps => json!("switch_apps"),
            Sym::NoPoll(w) => json!({"nopoll": format!("{:?}", w)}),
        }
    }
    pub fn from_json(v: &Value) -> Sym {
        let gap = |v: &Value| match v["gap"].as_str().unwrap() {
            "G11" => Gap::G11,
            "G33" => Gap::G33,
            _ => Gap::HalfSlot,
        };
        let frame = |s: &str| match rc::decode(&unhex(s)) {
            rc::RDec::Frame(f, _) => f,
            o => panic!("bad frame in replay: {o:?}"),
        };
        if let Some(s) = v.as_str() {
            return if s == "set_offline" { Sym::SetOffline } else if s == "switch_apps" { Sym::SwitchApps } else { Sym::SetOnline };
        }
        if let Some(t) = v["tel"].as_str() {
            return Sym::Tel(frame(t), gap(v));
        }
        if let Some(t) = v["raw"].as_str() {
            return Sym::Raw(unhex(t), gap(v));
        }
        if let Some(t) = v["collide"].as_str() {
            return Sym::Collide(frame(t));
        }
        if let Some(b) = v["burst"].as_array() {
            return Sym::Burst(b.iter().map(|x| unhex(x.as_str().unwrap())).collect());
        }
        if let Some(w) = v["nopoll"].as_str() {
            return Sym::NoPoll(match w {
                "HalfSlot" => WaitLen::HalfSlot,
                "SlotPlus" => WaitLen::SlotPlus,
                _ => WaitLen::TimeoutPlus,
            });
        }
        match v["wait"].as_str().unwrap() {
            "HalfSlot" => Sym::Wait(WaitLen::HalfSlot),
            "SlotPlus" => Sym::Wait(WaitLen::SlotPlus),
            _ => Sym::Wait(WaitLen::TimeoutPlus),
        }
    }
}

#[derive(Clone, Copy, Debug, PartialEq, Eq)]
pub enum W2Mon {
    C05,
    C11,
    /// truthfulness of FDL status replies (second half of C12)
    C12R,
}

#[derive(Clone, Debug)]
pub struct W2Cfg {
    pub ts: u8,
    pub hsa: u8,
    pub gap_factor: u8,
    pub baud: usize,
    pub slot_bits: u16,
    pub ttr: Option<u32>,
    /// poll period = Tslot / period_div
    pub period_div: i64,
    pub alphabet: Vec<Sym>,
    pub prefix: Vec<Sym>,
    pub mon: W2Mon,
    /// 0: application `()`, 1: LiveList, 2: DpScanner, 3: LiveList + DpScanner via poll_multi, 4: poll_multi with zero applications
    pub apps: u8,
}

impl W2Cfg {
    pub fn to_json(&self) -> Value {
        json!({"ts": self.ts, "hsa": self.hsa, "gap_factor": self.gap_factor, "baud": self.baud, "slot_bits": self.slot_bits, "ttr": self.ttr,
            "period_div": self.period_div, "mon": format!("{:?}", self.mon), "apps": self.apps,
            "prefix": self.prefix.iter().map(|s| s.to_json()).collect::<Vec<_>>()})
    }
    pub fn from_json(v: &Value, alphabet: Vec<Sym>) -> W2Cfg {
        W2Cfg {
            ts: v["ts"].as_u64().unwrap() as u8,
            hsa: v["hsa"].as_u64().unwrap() as u8,
            gap_factor: v["gap_factor"].as_u64().unwrap() as u8,
            baud: v["baud"].as_u64().unwrap() as usize,
            slot_bits: v["slot_bits"].as_u64().unwrap() as u16,
            ttr: v["ttr"].as_u64().map(|x| x as u32),
            period_div: v["period_div"].as_i64().unwrap(),
            alphabet,
            prefix: v["prefix"].as_array().unwrap().iter().map(Sym::from_json).collect(),
            mon: if v["mon"] == "C11" { W2Mon::C11 } else if v["mon"] == "C12R" { W2Mon::C12R } else { W2Mon::C05 },
            apps: v["apps"].as_u64().unwrap_or(0) as u8,
        }
    }
    pub fn params(&self) -> profirust::fdl::Parameters {
        let mut b = ParametersBuilder::new(self.ts, BAUDS[self.baud].0);
        b.slot_bits(self.slot_bits).highest_station_address(self.hsa).gap_wait_rotations(self.gap_factor);
        if let Some(t) = self.ttr {
            b.token_rotation_bits(t);
        }
        b.build()
    }
}

#[derive(Clone, Debug, Default, PartialEq, Eq)]
pub struct C11Mon {
    /// the monitor's belief that the station may initiate transmissions
    pub holder: bool,
    /// scaled time of the last event that keeps the belief alive
    pub holder_since: i64,
    /// token offers (sa -> TS) from stations other than PS since the station last held the token
    pub offers: Vec<(u8, u8)>,
    /// last pass TS -> X: (X, number of identical passes so far, scaled end of the last one, something decodable heard since)
    pub pass: Option<(u8, u8, i64, bool)>,
    /// scaled end of the last activity on the bus
    pub last_activity_end: i64,
    /// a telegram from X was heard after the last pass to X and nothing else since
    pub heard_from_successor: Option<u8>,
    pub prev_activity_end: i64,
    pub last_activity_start: i64,
    /// an acceptable token offer arrived while the station already held a token (two tokens on the
    /// bus, the peer's fault): the station may use it after it has passed its own
    pub extra_offer: bool,
    /// a decodable telegram was delivered while the station held the token (it does not read then): it is
    /// still in the receive buffer and will be processed after the station's next transmission
    pub stale_pending: u8,
    /// the station's last transmission was a request that expects a reply: it is reading
    pub awaiting_reply: bool,
    /// senders of token offers that were delivered while the station was not reading: the station will
    /// count them when it reads next (after its next request or pass)
    pub stale_offers: Vec<u8>,
    /// the last few token passes of the peer (sa, da): a witnessed pass that skips X legitimately removes X
    /// from the station's ring view
    pub recent_peer_tokens: Vec<(u8, u8)>,
}

#[derive(Clone)]
pub enum Apps {
    Unit,
    Live(profirust::fdl::live_list::LiveList),
    Scan(profirust::dp::scan::DpScanner),
    Both(profirust::fdl::live_list::LiveList, profirust::dp::scan::DpScanner),
    Zero,
}

#[derive(Clone)]
pub struct W2State {
    pub cfg: Arc<W2Cfg>,
    pub station: FdlActiveStation,
    pub bus: BusSim,
    pub now: i64,
    pub p_us: i64,
    pub slot_us: i64,
    /// scaled end of a status request to the station that it has not answered yet
    pub open_status_req_end: Option<i64>,
    pub c11: C11Mon,
    pub apps: Apps,
    pub dead: bool,
    pub history: Vec<u16>,
    pub verbose: bool,
    pub trace_seen: usize,
    pub accepted_tokens: u32,
    pub c12r: C12RMon,
}

#[derive(Clone, Debug, Default, PartialEq, Eq)]
pub struct C12RMon {
    /// last telegram the peer delivered: (frame, scaled end, station was in ring before, PS before)
    pub last_delivery: Option<(rc::RFrame, i64, bool, u8)>,
    pub cur_rotation: Vec<(u8, u8)>,
    pub prev_rotation: Option<Vec<(u8, u8)>>,
    pub identical: u32,
    pub last_token: Option<(u8, u8)>,
    /// two identical consecutive rotations were seen at some point since going online (validity latches)
    pub ever_identical: bool,
    pub claimed: bool,
    pub answered: bool,
    /// the witnessed passes did not form a chain (a pass by a station that was not given the token and is
    /// not repeating its own pass): what "a rotation" is is undefined until two clean identical rotations
    /// have been seen again; the 'ready' judgement is suspended meanwhile
    pub suspended: bool,
    /// the last status request to the station was followed by another telegram in the SAME poll of the
    /// station (a burst): the requester has moved on, the request must not be answered any more
    pub request_stale: bool,
    /// the witnessed passes with valid addresses, re-tries of the same sender collapsed into its last pass
    pub passes: Vec<(u8, u8)>,
    /// the station was listening or idle in the ring (not holding a token, not waiting for a reply of its own)
    /// when the last status request addressed to it was delivered: it has to answer it
    pub expect_reply: bool,
}

impl W2State {
    pub fn new(cfg: &Arc<W2Cfg>) -> W2State {
        Self::new_verbose(cfg, false)
    }
    pub fn new_verbose(cfg: &Arc<W2Cfg>, verbose: bool) -> W2State {
        let params = cfg.params();
        let slot_us = params.slot_time().total_micros() as i64;
        let p_us = (slot_us / cfg.period_div).max(1);
        let mut station = FdlActiveStation::new(params);
        let mut bus = BusSim::new(BAUDS[cfg.baud].1, 2);
        bus.retire_port(1);
        station.set_online();
        let apps = match cfg.apps {
            0 => Apps::Unit,
            1 => Apps::Live(profirust::fdl::live_list::LiveList::new()),
            2 => Apps::Scan(profirust::dp::scan::DpScanner::new()),
            3 => Apps::Both(profirust::fdl::live_list::LiveList::new(), profirust::dp::scan::DpScanner::new()),
            _ => Apps::Zero,
        };
        let mut s = W2State {
            cfg: cfg.clone(),
            station,
            bus,
            now: 0,
            p_us,
            slot_us,
            open_status_req_end: None,
            c11: C11Mon::default(),
            apps,
            dead: false,
            history: vec![],
            verbose,
            trace_seen: 0,
            accepted_tokens: 0,
            c12r: C12RMon::default(),
        };
        s.poll();
        for sym in cfg.prefix.clone() {
            if !s.apply(&sym) {
                break;
            }
        }
        s
    }

    pub fn replay_json(&self) -> Value {
        json!({"world": "w2", "cfg": self.cfg.to_json(), "path": self.history.iter().map(|i| self.cfg.alphabet[*i as usize].to_json()).collect::<Vec<_>>()})
    }

    fn report(&mut self, sig: &str, detail: String) {
        let path: Vec<String> = self.history.iter().map(|i| self.cfg.alphabet[*i as usize].name()).collect();
        ctx().violation(sig.to_string(), format!("{detail} [TS={} HSA={} P=Tsl/{} prefix={} path: {}]", self.cfg.ts, self.cfg.hsa, self.cfg.period_div, self.cfg.prefix.len(), path.join(", ")), self.replay_json(), self.history.len() as u64);
        self.dead = true;
    }

    /// One poll of the station at `self.now`.
    pub fn poll(&mut self) {
        if self.dead {
            return;
        }
        let now = Instant::from_micros(self.now);
        let station = &mut self.station;
        let bus = &mut self.bus;
        let apps = &mut self.apps;
        let r = catch(|| {
            let mut port = bus.port(0);
            match apps {
                Apps::Unit => station.poll(now, &mut port, &mut ()),
                Apps::Live(l) => station.poll(now, &mut port, l),
                Apps::Scan(s) => station.poll(now, &mut port, s),
                Apps::Both(l, s) => {
                    let mut a: [&mut dyn FdlApplication; 2] = [l, s];
                    station.poll_multi(now, &mut port, &mut a)
                }
                Apps::Zero => {
                    let mut a: [&mut dyn FdlApplication; 0] = [];
                    station.poll_multi(now, &mut port, &mut a)
                }
            }
        });
        if let Err(p) = r {
            ctx().panics_cut.fetch_add(1, std::sync::atomic::Ordering::Relaxed);
            if self.cfg.mon == W2Mon::C05 {
                let sig = format!("c05.fdl.{}", p.sig());
                self.report(&sig, format!("panic in poll(): {}:{} {}", p.file, p.line, p.msg));
            }
            self.dead = true;
            return;
        }
        // events from applications are drained so that their buffers do not grow
        match &mut self.apps {
            Apps::Live(l) => {
                let _ = l.take_last_event();
            }
            Apps::Scan(s) => {
                let _ = s.take_last_event();
            }
            Apps::Both(l, s) => {
                let _ = l.take_last_event();
                let _ = s.take_last_event();
            }
            _ => {}
        }
        // station transmissions of this poll
        while self.trace_seen < self.bus.trace.len() {
            let tx = self.bus.trace[self.trace_seen].clone();
            self.trace_seen += 1;
            if tx.sender == 0 {
                self.open_status_req_end = None;
                if self.verbose {
                    println!("  {:>9} us  station: {}", tx.start_us, rc::decode_all(&tx.bytes).iter().map(|f| match f { Ok(f) => f.short(), Err(b) => format!("?{}", hex(b)) }).collect::<Vec<_>>().join(" | "));
                }
                if let rc::RDec::Frame(f, _) = rc::decode(&tx.bytes) {
                    if !f.is_response() {
                        self.accepted_tokens += 1;
                    }
                }
                if self.cfg.mon == W2Mon::C11 {
                    self.c11_station_tx(&tx);
                }
                if self.cfg.mon == W2Mon::C12R {
                    self.c12r_station_tx(&tx);
                }
            }
        }
    }

    /// "A station answers status requests addressed to it ... within the slot time": the (polite) requester has
    /// waited a slot time and three polls and nothing came.
    fn c12r_missing_reply_check(&mut self) {
        if self.cfg.mon != W2Mon::C12R {
            return;
        }
        if let Some((req, end, _, _)) = &self.c12r.last_delivery {
            let waited = self.bus.scaled(self.now) - *end;
            if self.c12r.expect_reply && !self.c12r.answered && !self.c12r.request_stale && *end < i64::MAX / 8 && waited > self.cfg.slot_bits as i64 * BIT {
                let r = req.short();
                self.c12r.expect_reply = false;
                self.report("c12.reply.missing", format!("no reply to {r} within the slot time ({} bit times waited) although the station was listening / idle", waited / BIT));
            }
        }
    }

    fn c12r_station_tx(&mut self, tx: &crate::bus::Tx) {
        let ts = self.cfg.ts;
        let slot = self.cfg.slot_bits as i64 * BIT;
        let f = match rc::decode(&tx.bytes) {
            rc::RDec::Frame(f, _) => f,
            _ => return,
        };
        if let rc::RFrame::Token { da, sa } = &f {
            if *da == ts && *sa == ts {
                self.c12r.claimed = true;
            }
        }
        if !f.is_response() {
            // the station transmitted something else in between: the reply timing is not judged any more
            if let Some((_, end, _, _)) = self.c12r.last_delivery.as_mut() {
                *end = i64::MAX / 4;
            }
            return;
        }
        let (state, da) = match &f {
            rc::RFrame::Data { fc, da, sa, du, dsap, ssap } if *sa == ts && du.is_empty() && dsap.is_none() && ssap.is_none() => ((fc >> 4) & 3, *da),
            o => {
                self.report("c12.reply.shape", format!("unexpected response telegram {}", o.short()));
                return;
            }
        };
        let (req, req_end, in_ring_before, ps_before) = match self.c12r.last_delivery.clone() {
            Some(x) => x,
            None => {
                self.report("c12.reply.unsolicited", format!("status reply {} although the last telegram on the bus was not a request", f.short()));
                return;
            }
        };
        if self.c12r.request_stale {
            self.report("c12.reply.to_stale_request", format!("status reply {} to a request that was followed by another telegram before the station looked at the bus", f.short()));
            return;
        }
        if !(req.is_fdl_status_req() && req.da() == Some(ts)) {
            self.report("c12.reply.to_request_for_another_station", format!("status reply {} after {}", f.short(), req.short()));
            return;
        }
        if self.c12r.answered {
            self.report("c12.reply.twice", format!("second reply to {}", req.short()));
            return;
        }
        self.c12r.answered = true;
        if Some(da) != req.sa() {
            self.report("c12.reply.wrong_destination", format!("reply to #{da} for a request from {:?}", req.sa()));
            return;
        }
        if req_end < i64::MAX / 8 && tx.start - req_end > slot + self.bus.rate {
            self.report("c12.reply.after_slot_time", format!("reply started {} bit times after the request", (tx.start - req_end) / BIT));
            return;
        }
        ctx().witness(["c12_reply_slave", "c12_reply_not_ready", "c12_reply_ready", "c12_reply_in_ring"][state as usize]);
        match state {
            3 if !in_ring_before => self.report("c12.reply.in_ring_while_listening", "reports 'master in ring' although it was not in the ring".into()),
            2 if in_ring_before => self.report("c12.reply.ready_while_in_ring", "reports 'ready' although it is in the ring".into()),
            1 if in_ring_before => self.report("c12.reply.not_ready_while_in_ring", "reports 'not ready' although it is in the ring".into()),
            0 => self.report("c12.reply.claims_to_be_slave", "reports station type 'slave'".into()),
            2 => {
                if req.sa() != Some(ps_before) {
                    self.report("c12.reply.ready_to_non_predecessor", format!("reports 'ready' to #{:?} but its registered predecessor is #{ps_before}", req.sa()));
                } else if !self.c12r.ever_identical && !self.c12r.claimed && !self.c12r.suspended {
                    // classify the known case: one full rotation followed by a repeated wrap-around pass
                    let single_wrap = self.c12r.cur_rotation.is_empty() && self.c12r.last_token.map(|(sa, da)| da <= sa).unwrap_or(false);
                    let sig = if single_wrap { "c12.reply.ready_after_one_rotation_plus_repeated_wraparound_pass" } else { "c12.reply.ready_before_two_identical_rotations" };
                    self.report(sig, format!("reports 'ready' but has not seen two identical rotations yet (last rotation {:?})", self.c12r.prev_rotation));
                }
            }
            1 => {
                let cyc = self.c12r.prev_rotation.as_ref().map(|r| r.len() >= 2 && r.windows(2).all(|w| w[0].1 == w[1].0) && r.last().unwrap().1 == r[0].0 && r.iter().all(|(sa, da)| *sa != ts && *da != ts)).unwrap_or(false);
                if cyc && self.c12r.identical >= 2 && req.sa() == Some(ps_before) && self.c12r.cur_rotation.is_empty() {
                    self.report("c12.reply.not_ready_after_identical_rotations", format!("reports 'not ready' to its predecessor although {} identical rotations were seen", self.c12r.identical + 1));
                }
            }
            _ => {}
        }
    }

    fn station_spoke_since(&self, mark: usize) -> bool {
        self.bus.trace[mark..].iter().any(|t| t.sender == 0)
    }

    fn gap_us(&self, g: Gap) -> i64 {
        match g {
            Gap::G11 => self.bus.bits_us_floor(11) + 1,
            Gap::G33 => self.bus.bits_us_floor(33) + 1,
            Gap::HalfSlot => self.slot_us / 2,
        }
    }

    fn peer_send(&mut self, t_send: i64, bytes: &[u8], frame: Option<&rc::RFrame>) {
        if self.verbose {
            println!("  {:>9} us  peer   : {}", t_send, frame.map(|f| f.short()).unwrap_or_else(|| format!("raw {}", hex(bytes))));
        }
        if self.cfg.mon == W2Mon::C11 {
            self.c11_before_delivery(frame, t_send, bytes.len());
            let end = self.bus.scaled(t_send) + bytes.len() as i64 * 11 * BIT;
            self.open_status_req_end = match frame {
                Some(f) if f.is_fdl_status_req() && f.da() == Some(self.cfg.ts) => Some(end),
                _ => None,
            };
        }
        if self.cfg.mon == W2Mon::C12R {
            let end = self.bus.scaled(t_send) + bytes.len() as i64 * 11 * BIT;
            match frame {
                Some(f) => {
                    let ps = self.station.inspect_token_ring().previous_station();
                    if f.is_fdl_status_req() && f.da() == Some(self.cfg.ts) {
                        self.c12r.last_delivery = Some((f.clone(), end, self.station.is_in_ring(), ps));
                        self.c12r.answered = false;
                        self.c12r.request_stale = false;
                        let st = self.station.verif_view().state;
                        self.c12r.expect_reply = (st.starts_with("ListenToken") || st.starts_with("ActiveIdle")) && self.bus.pending(0, t_send) == 0;
                        if self.verbose {
                            println!("      (status request delivered while the station is in {st}: reply expected = {})", self.c12r.expect_reply);
                        }
                    } else if let Some((_, e, _, _)) = self.c12r.last_delivery.as_mut() {
                        // other traffic after the request: timing of a late reply is not judged
                        *e = i64::MAX / 4;
                    }
                    if let rc::RFrame::Token { da, sa } = f {
                        // a pass by the station that also sent the previous token (a retry, or the next try
                        // after a failed pass) belongs to the same rotation; rotations are compared by the
                        // sequence of passing stations (the LAS is built from the senders)
                        let is_retry = sa != da && self.c12r.last_token.map(|t| t.0) == Some(*sa);
                        // chain continuity: the passing station is the one that was given the token (or it
                        // repeats / re-tries its own pass)
                        if let Some((lsa, lda)) = self.c12r.last_token {
                            if *sa != lda && *sa != lsa && *sa <= 125 && *da <= 125 {
                                self.c12r.suspended = true;
                                self.c12r.passes.clear();
                                self.c12r.prev_rotation = None;
                                self.c12r.cur_rotation.clear();
                                self.c12r.identical = 0;
                                ctx().witness("c12_reply_chain_break_suspends_ready_judgement");
                            }
                        }
                        self.c12r.last_token = Some((*sa, *da));
                        // "two identical rotations" does not depend on where a rotation is said to begin: the
                        // last 2k passes are two identical closed chains of k passes, for some k
                        if *da <= 125 && *sa <= 125 {
                            if is_retry {
                                self.c12r.passes.pop();
                            }
                            self.c12r.passes.push((*sa, *da));
                            if self.c12r.passes.len() > 24 {
                                self.c12r.passes.remove(0);
                            }
                            let p = &self.c12r.passes;
                            let n = p.len();
                            for k in 1..=n / 2 {
                                let a = &p[n - 2 * k..n - k];
                                let b = &p[n - k..];
                                let chain = b.windows(2).all(|w| w[0].1 == w[1].0) && b[k - 1].1 == b[0].0;
                                if a == b && chain {
                                    self.c12r.ever_identical = true;
                                    self.c12r.suspended = false;
                                }
                            }
                        }
                        if *da <= 125 && *sa <= 125 && !is_retry {
                            self.c12r.cur_rotation.push((*sa, *da));
                            if *da <= *sa {
                                let cur = std::mem::take(&mut self.c12r.cur_rotation);
                                let senders = |r: &Vec<(u8, u8)>| r.iter().map(|x| x.0).collect::<Vec<u8>>();
                                if self.c12r.prev_rotation.as_ref().map(senders) == Some(senders(&cur)) {
                                    self.c12r.ever_identical = true;
                                    self.c12r.suspended = false;
                                }
                                if self.c12r.prev_rotation.as_ref() == Some(&cur) {
                                    self.c12r.identical += 1;
                                } else {
                                    self.c12r.identical = 0;
                                }
                                self.c12r.prev_rotation = Some(cur);
                            }
                        }
                    }
                }
                None => {}
            }
        }
        self.bus.transmit(1, t_send, bytes);
        self.trace_seen = self.bus.trace.len();
    }

    /// Apply one environment action. Returns false when the action is not enabled.
    pub fn apply(&mut self, sym: &Sym) -> bool {
        if self.dead {
            return false;
        }
        self.bus.trace.clear();
        self.trace_seen = 0;
        match sym {
            Sym::Tel(..) | Sym::Raw(..) => {
                let (bytes, frame, g) = match sym {
                    Sym::Tel(f, g) => (rc::encode(f), Some(f.clone()), *g),
                    Sym::Raw(b, g) => (b.clone(), None, *g),
                    _ => unreachable!(),
                };
                let e_us = self.bus.quiet_from_us();
                let mut t_send = self.now.max(e_us + self.gap_us(g));
                if self.cfg.mon == W2Mon::C12R {
                    // a conforming requester leaves the addressed station its slot time to answer
                    if let Some((req, end, _, _)) = &self.c12r.last_delivery {
                        if req.is_fdl_status_req() && req.da() == Some(self.cfg.ts) && !self.c12r.answered {
                            t_send = t_send.max(self.bus.us_ceil(*end) + self.slot_us + 3 * self.p_us);
                        }
                    }
                }
                if self.cfg.mon == W2Mon::C11 {
                    // the same politeness: after a status request to the station nobody talks into its reply
                    // slot (otherwise the station replies late, between later telegrams, and what it
                    // "was" when a token went by is ambiguous)
                    if let Some(end) = self.open_status_req_end {
                        t_send = t_send.max(self.bus.us_ceil(end) + self.slot_us + 3 * self.p_us);
                    }
                }
                let mark = self.bus.trace.len();
                while self.now + self.p_us < t_send {
                    self.now += self.p_us;
                    self.poll();
                    if self.dead {
                        return true;
                    }
                    if self.station_spoke_since(mark) {
                        // the station spoke first: the peer's telegram is not sent
                        return true;
                    }
                }
                self.c12r_missing_reply_check();
                if self.dead {
                    return true;
                }
                self.peer_send(t_send, &bytes, frame.as_ref());
                let end_us = self.bus.quiet_from_us();
                while self.now < end_us {
                    self.now += self.p_us;
                    self.poll();
                    if self.dead {
                        return true;
                    }
                }
                self.now += self.p_us;
                self.poll();
                true
            }
            Sym::Burst(parts) => {
                // like Tel with a 33 bit gap, but the station is not polled between the telegrams
                let e_us = self.bus.quiet_from_us();
                let mut t_send = self.now.max(e_us + self.gap_us(Gap::G33));
                if self.cfg.mon == W2Mon::C12R {
                    // a conforming requester leaves the addressed station its slot time to answer
                    if let Some((req, end, _, _)) = &self.c12r.last_delivery {
                        if req.is_fdl_status_req() && req.da() == Some(self.cfg.ts) && !self.c12r.answered {
                            t_send = t_send.max(self.bus.us_ceil(*end) + self.slot_us + 3 * self.p_us);
                        }
                    }
                }
                let mark = self.bus.trace.len();
                while self.now + self.p_us < t_send {
                    self.now += self.p_us;
                    self.poll();
                    if self.dead || self.station_spoke_since(mark) {
                        return true;
                    }
                }
                for (bi, bytes) in parts.iter().enumerate() {
                    if self.cfg.mon == W2Mon::C12R && bi > 0 {
                        if let Some((req, _, _, _)) = &self.c12r.last_delivery {
                            if req.is_fdl_status_req() && req.da() == Some(self.cfg.ts) && !self.c12r.answered {
                                self.c12r.request_stale = true;
                            }
                        }
                    }
                    // the reply monitor of C12 wants to know what the telegrams are
                    let frame = match (self.cfg.mon, rc::decode(bytes)) {
                        (W2Mon::C12R, rc::RDec::Frame(f, n)) if n == bytes.len() => Some(f),
                        _ => None,
                    };
                    self.peer_send(t_send, bytes, frame.as_ref());
                    t_send = self.bus.quiet_from_us() + self.gap_us(Gap::G33);
                }
                let end_us = self.bus.quiet_from_us();
                self.now = self.now.max(end_us);
                self.now += self.p_us;
                self.poll();
                if self.dead {
                    return true;
                }
                self.now += self.p_us;
                self.poll();
                true
            }
            Sym::Collide(f) => {
                if !self.bus.is_transmitting(0, self.now) {
                    return false;
                }
                let bytes = rc::encode(f);
                self.peer_send(self.now, &bytes, None);
                let end_us = self.bus.quiet_from_us();
                while self.now < end_us {
                    self.now += self.p_us;
                    self.poll();
                    if self.dead {
                        return true;
                    }
                }
                self.now += self.p_us;
                self.poll();
                true
            }
            Sym::Wait(w) => {
                let d = match w {
                    WaitLen::HalfSlot => self.slot_us / 2,
                    WaitLen::SlotPlus => self.slot_us + self.p_us,
                    WaitLen::TimeoutPlus => self.slot_us * (6 + 2 * self.cfg.ts as i64) + 2 * self.p_us,
                };
                let end = self.now + d;
                while self.now < end {
                    self.now += self.p_us;
                    self.poll();
                    if self.dead {
                        return true;
                    }
                }
                self.c12r_missing_reply_check();
                true
            }
            Sym::NoPoll(w) => {
                let d = match w {
                    WaitLen::HalfSlot => self.slot_us / 2,
                    WaitLen::SlotPlus => self.slot_us + self.p_us,
                    WaitLen::TimeoutPlus => self.slot_us * (6 + 2 * self.cfg.ts as i64) + 2 * self.p_us,
                };
                self.now += d;
                self.poll();
                true
            }
            Sym::SetOffline => {
                if let Err(p) = catch(|| self.station.set_offline()) {
                    if self.cfg.mon == W2Mon::C05 {
                        let sig = format!("c05.fdl.{}", p.sig());
                        self.report(&sig, format!("panic in set_offline(): {}", p.msg));
                    }
                    self.dead = true;
                }
                self.c11 = C11Mon::default();
                self.c12r = C12RMon::default();
                true
            }
            Sym::SwitchApps => {
                if self.station.connectivity_state().is_online() {
                    return false;
                }
                let old = std::mem::replace(&mut self.apps, Apps::Unit);
                self.apps = match old {
                    Apps::Both(l, _s) => Apps::Live(l),
                    Apps::Live(l) => Apps::Both(l, profirust::dp::scan::DpScanner::new()),
                    o => o,
                };
                true
            }
            Sym::SetOnline => {
                if self.station.connectivity_state().is_online() {
                    return false;
                }
                self.station.set_online();
                self.bus.flush_port(0, self.now);
                true
            }
        }
    }

    // ---- C11 monitor ---------------------------------------------------------------------------

    fn c11_expire_holder(&mut self, t_scaled: i64) {
        let two_slots = 2 * self.cfg.slot_bits as i64 * BIT;
        if self.c11.holder && t_scaled - self.c11.holder_since.max(self.c11.last_activity_end) > two_slots {
            self.c11.holder = false;
        }
    }

    fn c11_before_delivery(&mut self, frame: Option<&rc::RFrame>, t_send: i64, len: usize) {
        let ts = self.cfg.ts;
        let start = self.bus.scaled(t_send);
        let end = start + len as i64 * 11 * BIT;
        self.c11_expire_holder(start);
        let ring = self.station.inspect_token_ring();
        let ps = ring.previous_station();
        let in_ring = self.station.is_in_ring();
        // A3: something decodable heard after a pass
        if let Some(f) = frame {
            if let Some((x, _, pass_end, heard)) = &mut self.c11.pass {
                if start >= *pass_end {
                    *heard = true;
                    if f.sa() == Some(*x) && ring.iter_active_stations().any(|a| a == *x) {
                        self.c11.heard_from_successor = Some(*x);
                    } else {
                        self.c11.heard_from_successor = None;
                    }
                }
            }
            let not_reading = self.c11.holder && in_ring && !self.c11.awaiting_reply;
            if not_reading {
                self.c11.stale_pending = self.c11.stale_pending.saturating_add(1);
            }
            self.c11.awaiting_reply = false;
            if let rc::RFrame::Token { da, sa } = f {
                // the registered predecessor at the time the station will PROCESS this token: the station may
                // not have processed the last few witnessed passes yet (it does not read while it holds the
                // token or while a status reply of its own is pending), so every ring view that results from
                // applying the last k of them is a candidate
                let mut ps_candidates: Vec<u8> = vec![ps];
                {
                    let toks = self.c11.recent_peer_tokens.clone();
                    for k in 1..=toks.len() {
                        let mut r = ring.clone();
                        for (xs, xd) in &toks[toks.len() - k..] {
                            r.witness_token_pass(*xs, *xd);
                        }
                        ps_candidates.push(r.previous_station());
                    }
                }
                self.c11.recent_peer_tokens.push((*sa, *da));
                if self.c11.recent_peer_tokens.len() > 4 {
                    self.c11.recent_peer_tokens.remove(0);
                }
                if *da == ts && *sa != ts && in_ring {
                    if self.c11.holder {
                        // delivered while the station holds a token: it is processed later, when the
                        // registered predecessor may be a different one — whoever sent it, the peer has put a
                        // second token on the bus
                        self.c11.extra_offer = true;
                    }
                    if not_reading {
                        // counted when the station reads it
                        self.c11.stale_offers.push(*sa);
                    } else if ps_candidates.contains(sa) {
                        self.c11.holder = true;
                        self.c11.holder_since = end;
                    } else {
                        let mut found = false;
                        for o in self.c11.offers.iter_mut() {
                            if o.0 == *sa {
                                o.1 = o.1.saturating_add(1).min(3);
                                found = true;
                                if o.1 >= 2 {
                                    if self.c11.holder {
                                        self.c11.extra_offer = true;
                                    }
                                    self.c11.holder = true;
                                    self.c11.holder_since = end;
                                }
                            }
                        }
                        if !found {
                            self.c11.offers.push((*sa, 1));
                            self.c11.offers.sort();
                        }
                    }
                }
            }
        } else {
            if self.c11.holder && in_ring && !self.c11.awaiting_reply {
                // undecodable bytes delivered while the station is not reading: they are still in its receive
                // buffer after its next pass
                self.c11.stale_pending = self.c11.stale_pending.saturating_add(1);
            }
            self.c11.awaiting_reply = false;
            if let Some((_, n, _, _heard)) = &mut self.c11.pass {
                // undecodable bytes: the statement does not say whether they count as "heard"; from now on
                // neither a repeat nor its absence is judged for this pass (n = 255 marks that)
                *n = 255;
            }
        }
        if end > self.c11.last_activity_end {
            self.c11.prev_activity_end = self.c11.last_activity_end;
            self.c11.last_activity_start = start;
            self.c11.last_activity_end = end;
        }
    }

    fn c11_station_tx(&mut self, tx: &crate::bus::Tx) {
        let ts = self.cfg.ts;
        let slot = self.cfg.slot_bits as i64 * BIT;
        let frame = match rc::decode(&tx.bytes) {
            rc::RDec::Frame(f, _) => f,
            _ => return,
        };
        self.c11_expire_holder(tx.start);
        if self.verbose && std::env::var("PBMC_DEBUG_C11").is_ok() {
            println!("      [c11 before {}: {:?}]", frame.short(), self.c11);
        }
        self.c11.awaiting_reply = frame.is_request() && frame.req_expects_reply();
        if self.c11.awaiting_reply && self.c11.stale_pending > 0 {
            // the first telegram waiting in the receive buffer is consumed as (or instead of) the reply: the
            // station is not going to read what is delivered next
            self.c11.stale_pending -= 1;
            self.c11.awaiting_reply = false;
        }
        // a telegram whose first byte was not complete when the station started cannot have been noticed
        let silence = if self.c11.last_activity_start + 11 * BIT > tx.start { tx.start - self.c11.prev_activity_end } else { tx.start - self.c11.last_activity_end };
        if !frame.is_response() {
            // the station initiates a transmission
            let mut justified = self.c11.holder;
            let was_holder = self.c11.holder;
            let own_token = match &frame {
                rc::RFrame::Token { da, sa } if *sa == ts => Some(*da),
                _ => None,
            };
            let clean_repeat = match (own_token, &self.c11.pass) {
                (Some(da), Some((x, n, pass_end, heard))) => da == *x && !*heard && *n < 3 && tx.start - *pass_end >= slot - self.bus.rate,
                _ => false,
            };
            if !justified && self.c11.extra_offer && !clean_repeat {
                // it uses the second token it was given while it held the first
                self.c11.extra_offer = false;
                // (a pass whose supervision is not judged stays unjudged)
                if !matches!(self.c11.pass, Some((_, 255, _, _))) {
                    self.c11.pass = None;
                }
                justified = true;
                // it holds that token now
                self.c11.holder = true;
                self.c11.holder_since = tx.end;
            }
            if !justified {
                if let (Some(da), Some((x, n, pass_end, heard))) = (own_token, self.c11.pass.clone()) {
                    let fuzzy = n == 255;
                    if fuzzy {
                        // undecodable bytes were on the bus after the pass: nothing is judged
                        justified = true;
                    } else if da == x {
                        // identical repeat of its own pass
                        justified = true;
                        if heard {
                            self.report("c11.a3.repeat_although_heard", format!("token pass to #{x} repeated although a telegram was heard after the pass"));
                            return;
                        }
                        if tx.start - pass_end < slot - self.bus.rate {
                            self.report("c11.a3.repeat_before_slot_time", format!("token pass to #{x} repeated {} bit times after the pass (slot time {} bits)", (tx.start - pass_end) / BIT, self.cfg.slot_bits));
                            return;
                        }
                        if n >= 3 {
                            self.report("c11.a3.more_than_two_repeats", format!("token pass to #{x} transmitted {} times", n + 1));
                            return;
                        }
                        self.c11.pass = Some((x, n + 1, tx.end, false));
                        ctx().witness("c11_pass_repeated");
                        self.c11.last_activity_end = self.c11.last_activity_end.max(tx.end);
                        return;
                    } else if !heard {
                        // gives up on the silent successor and passes on (or keeps the token)
                        if n < 3 {
                            self.report("c11.a3.successor_dropped_early", format!("after only {n} silent pass(es) to #{x} the token goes to #{da}"));
                            return;
                        }
                        let still = self.station.inspect_token_ring().iter_active_stations().any(|a| a == x);
                        if still {
                            self.report("c11.a3.silent_successor_not_removed", format!("#{x} did not react to three passes but is still in the LAS"));
                            return;
                        }
                        ctx().witness("c11_successor_removed");
                        justified = true;
                    }
                }
            }
            if !justified && own_token == Some(ts) {
                // claim after the silence time-out
                // (C11 does not define the claim rule — C01 does; here it only serves as a justification,
                // with one slot time of slack for the station's coarser notion of "last bus activity")
                let timeout = (6 + 2 * ts as i64) * slot - slot;
                if silence >= timeout - self.bus.rate {
                    justified = true;
                    ctx().witness("c11_claim");
                } else {
                    self.report("c11.a1.claim_before_timeout", format!("claims the token after {} bit times of silence (time-out {} bits)", silence / BIT, timeout / BIT));
                    return;
                }
            }
            if !justified {
                let offers = self.c11.offers.clone();
                self.report(
                    "c11.a1.initiates_without_token",
                    format!("station transmits {} without having been given the token (PS={}, in_ring={}, offers so far {:?})", frame.short(), self.station.inspect_token_ring().previous_station(), self.station.is_in_ring(), offers),
                );
                return;
            }
            if was_holder {
                ctx().witness("c11_initiated_as_holder");
                self.c11.offers.clear();
            }
            if self.c11.awaiting_reply || matches!(own_token, Some(da) if da != ts) {
                // the station reads now: offers that were waiting in its receive buffer are counted
                let stale: Vec<u8> = self.c11.stale_offers.drain(..).collect();
                for sa in stale {
                    match self.c11.offers.iter_mut().find(|o| o.0 == sa) {
                        Some(o) => o.1 = o.1.saturating_add(1).min(3),
                        None => {
                            self.c11.offers.push((sa, 1));
                            self.c11.offers.sort();
                        }
                    }
                }
            }
            match own_token {
                Some(da) if da != ts => {
                    self.c11.holder = false;
                    // a pass that collides with a transmission in progress: the tail of that transmission reaches
                    // the station as undecodable bytes after its pass ("something was heard")
                    // … and so does a telegram that was delivered while the station was not reading: it is
                    // processed right after this pass
                    // (the precise form of the same thing: bytes that are still unread in the station's receive
                    // buffer when it transmits the pass)
                    let unread = self.bus.pending(0, self.now) > 0;
                    let fuzzy = (matches!(self.c11.pass, Some((_, 255, _, _))) && !was_holder) || tx.overlaps_prev || self.c11.stale_pending > 0 || unread;
                    self.c11.stale_pending = 0;
                    self.c11.pass = Some((da, if fuzzy { 255 } else { 1 }, tx.end, false));
                    self.c11.heard_from_successor = None;
                }
                Some(_) => {
                    // token to itself: it keeps (or takes) the token
                    self.c11.holder = true;
                    self.c11.holder_since = tx.end;
                    self.c11.pass = None;
                }
                None => {
                    self.c11.holder_since = tx.end;
                }
            }
        }
        self.c11.last_activity_end = self.c11.last_activity_end.max(tx.end);
    }

    /// A3 "never removes a successor that was heard": evaluated at the end of a step.
    pub fn c11_end_of_step(&mut self) {
        if self.cfg.mon != W2Mon::C11 || self.dead {
            return;
        }
        if let Some(x) = self.c11.heard_from_successor {
            let still = self.station.inspect_token_ring().iter_active_stations().any(|a| a == x);
            // a witnessed pass sa -> da of another station that skips X (X strictly between sa and da,
            // cyclically) removes X from the ring view for a good reason
            let skipped = self.c11.recent_peer_tokens.iter().any(|(sa, da)| if da > sa { x > *sa && x < *da } else { x > *sa || x < *da });
            if !still && !skipped {
                self.report("c11.a3.heard_successor_removed", format!("#{x} was heard after the token pass but is no longer in the LAS"));
            }
            self.c11.heard_from_successor = None;
        }
    }

    // ---------------------------------------------------------------------------------------------

    pub fn fingerprint(&self) -> u64 {
        let mut b: Vec<u8> = Vec::with_capacity(256);
        let v = self.station.verif_view();
        let p = self.station.parameters();
        let tl = (p.token_lost_timeout().total_micros() as i64) + self.slot_us;
        let ttr = p.token_rotation_time().total_micros() as i64 + self.slot_us;
        b.extend_from_slice(v.state.as_bytes());
        b.extend_from_slice(v.gap_state.as_bytes());
        b.push(v.connectivity_state as u8);
        let age = |t: Option<Instant>, sat: i64| -> i64 { t.map(|t| (self.now - t.total_micros()).clamp(-sat, sat)).unwrap_or(i64::MIN) };
        b.extend_from_slice(&age(v.last_bus_activity, tl).to_le_bytes());
        b.extend_from_slice(&(v.pending_bytes as u32).to_le_bytes());
        b.extend_from_slice(&age(v.token_time, ttr).to_le_bytes());
        b.extend_from_slice(&age(Some(v.last_token_time), ttr).to_le_bytes());
        b.extend_from_slice(&(v.end_token_hold_time.total_micros() - self.now).clamp(-1, ttr).to_le_bytes());
        b.push((v.token_time == Some(v.last_token_time)) as u8);
        b.extend_from_slice(&(v.next_application as u32).to_le_bytes());
        b.extend_from_slice(format!("{:?}{:?}", self.station.inspect_token_ring(), self.station.inspect_token_ring().verif_last_witnessed_sender()).as_bytes());
        self.bus.fingerprint_into(self.now, &mut b);
        match &self.apps {
            Apps::Unit | Apps::Zero => {}
            Apps::Live(l) => b.extend_from_slice(strip_addrs(format!("{:?}", l)).as_bytes()),
            Apps::Scan(s) => b.extend_from_slice(strip_addrs(format!("{:?}", s)).as_bytes()),
            Apps::Both(l, s) => b.extend_from_slice(strip_addrs(format!("{:?}{:?}", l, s)).as_bytes()),
        }
        if self.cfg.mon == W2Mon::C11 {
            let m = &self.c11;
            let rel = |t: i64| (self.bus.scaled(self.now) - t).clamp(-400 * BIT, (6 + 2 * self.cfg.ts as i64 + 2) * self.cfg.slot_bits as i64 * BIT);
            b.extend_from_slice(format!("{}|{}|{:?}|{:?}|{}|{:?}", m.holder, rel(m.holder_since), m.offers, m.pass.as_ref().map(|(x, n, e, h)| (*x, *n, rel(*e), *h)), rel(m.last_activity_end), m.heard_from_successor).as_bytes());
            b.extend_from_slice(&rel(m.prev_activity_end).to_le_bytes());
            b.push(m.extra_offer as u8);
            b.extend_from_slice(format!("{}|{}|{:?}|{:?}|{}|{:?}", m.stale_pending, m.awaiting_reply, m.stale_offers, m.recent_peer_tokens, rel(m.last_activity_start), self.open_status_req_end.map(|e| rel(e))).as_bytes());
        }
        if self.cfg.mon == W2Mon::C12R {
            let m = &self.c12r;
            b.extend_from_slice(format!("{:?}|{:?}|{:?}|{}|{}|{}", m.last_delivery.as_ref().map(|(f, e, r, p)| (f.short(), (self.bus.scaled(self.now) - e).clamp(-1, 300 * BIT), *r, *p)), m.cur_rotation, m.prev_rotation, m.identical.min(3), m.claimed, m.answered).as_bytes());
            b.push(m.ever_identical as u8);
            b.extend_from_slice(format!("{:?}|{:?}|{:?}", m.last_token, (m.suspended, m.request_stale), &m.passes[m.passes.len().saturating_sub(8)..]).as_bytes());
        }
        fnv64(&b)
    }
}

pub struct W2World {
    pub s: W2State,
    pub fp: u64,
}

impl W2World {
    pub fn init(cfg: &Arc<W2Cfg>) -> W2World {
        let s = W2State::new(cfg);
        let fp = s.fingerprint();
        W2World { s, fp }
    }
}

impl World for W2World {
    fn n_actions(&self) -> usize {
        if self.s.dead {
            0
        } else {
            self.s.cfg.alphabet.len()
        }
    }
    fn step(&self, a: usize, _path: &[u16]) -> Option<Self> {
        let mut s = self.s.clone();
        s.history.push(a as u16);
        let sym = s.cfg.alphabet[a].clone();
        let desc = s.replay_json();
        let ok = guarded(move || desc.clone(), || s.apply(&sym));
        if !ok {
            return None;
        }
        s.c11_end_of_step();
        if s.dead {
            return None;
        }
        s.bus.gc_with_retired();
        let fp = s.fingerprint();
        Some(W2World { s, fp })
    }
    fn fingerprint(&self) -> u64 {
        self.fp
    }
    fn describe_action(&self, a: usize) -> String {
        self.s.cfg.alphabet[a].name()
    }
}

pub fn replay(v: &Value) {
    let r = &v["replay"];
    let path: Vec<Sym> = r["path"].as_array().unwrap().iter().map(Sym::from_json).collect();
    let mut cfg = W2Cfg::from_json(&r["cfg"], vec![]);
    cfg.alphabet = path.clone();
    let cfg = Arc::new(cfg);
    println!("configuration: {}", r["cfg"]);
    let mut s = W2State::new_verbose(&cfg, true);
    println!("-- after prefix: in_ring={} ring={:?}", s.station.is_in_ring(), s.station.inspect_token_ring());
    for (i, sym) in path.iter().enumerate() {
        println!("-- action {}", sym.name());
        s.history.push(i as u16);
        let ok = s.apply(sym);
        s.c11_end_of_step();
        println!("   (enabled={ok} dead={} now={} us in_ring={} view={:?})", s.dead, s.now, s.station.is_in_ring(), s.station.verif_view().state);
        if s.dead {
            break;
        }
    }
}
