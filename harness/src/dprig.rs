//! W4 direct drive: a real `DpMaster` (with real `Peripheral`s) driven through its public
//! `FdlApplication` interface, plus the reference DP-V0 slave used as environment and oracle.

use crate::refcodec as rc;
use profirust::dp::{DpEvents, DpMaster, Peripheral, PeripheralHandle, PeripheralOptions, PeripheralStorage};
use profirust::fdl::{FdlActiveStation, FdlApplication, HighPrioOnly, ParametersBuilder, Telegram, TelegramTx};
use profirust::time::{Duration, Instant};
use std::collections::HashMap;
use std::sync::Mutex;

static INTERN: Mutex<Option<HashMap<Vec<u8>, &'static [u8]>>> = Mutex::new(None);
/// Peripheral options borrow their byte strings; the harness interns them (bounded set).
pub fn intern(b: &[u8]) -> &'static [u8] {
    let mut g = INTERN.lock().unwrap();
    let m = g.get_or_insert_with(HashMap::new);
    if let Some(s) = m.get(b) {
        return s;
    }
    let s: &'static [u8] = Box::leak(b.to_vec().into_boxed_slice());
    m.insert(b.to_vec(), s);
    s
}

#[derive(Clone, Debug, PartialEq, Eq, Hash)]
pub struct PeriphCfg {
    pub addr: u8,
    pub ident: u16,
    pub sync: bool,
    pub freeze: bool,
    pub groups: u8,
    pub user_prm: Option<Vec<u8>>,
    pub config: Option<Vec<u8>>,
    pub in_len: usize,
    pub out_len: usize,
    pub diag_buf: Option<usize>,
}

impl PeriphCfg {
    pub fn simple(addr: u8, in_len: usize, out_len: usize) -> Self {
        PeriphCfg {
            addr,
            ident: 0x1337,
            sync: false,
            freeze: false,
            groups: 0,
            user_prm: Some(vec![0x00, 0x01, 0x02]),
            config: Some(vec![0x11, 0x21]),
            in_len,
            out_len,
            diag_buf: Some(32),
        }
    }
}

#[derive(Clone, Debug, PartialEq, Eq, Hash)]
pub struct RigCfg {
    pub ts: u8,
    pub baud: u8, // index into BAUDS
    pub max_retry: u8,
    pub min_tsdr: u8,
    pub watchdog_ms: Option<u64>,
    pub slot_bits: Option<u16>,
    pub periphs: Vec<PeriphCfg>,
    /// None: growing Vec storage; Some(n): fixed array of n slots
    pub fixed_slots: Option<usize>,
    pub operate: bool,
    /// value of the master's clock at the start (microseconds; 0 = the usual 1 ms after zero)
    pub origin_us: i64,
}

impl RigCfg {
    pub fn basic(periphs: Vec<PeriphCfg>) -> Self {
        RigCfg { ts: 2, baud: 1, max_retry: 1, min_tsdr: 11, watchdog_ms: None, slot_bits: None, periphs, fixed_slots: None, operate: true, origin_us: 0 }
    }
}

/// same order as w2::BAUDS (new entries appended: indices in replay files stay valid)
pub const BAUDS: [profirust::Baudrate; 11] = [
    profirust::Baudrate::B9600,
    profirust::Baudrate::B19200,
    profirust::Baudrate::B500000,
    profirust::Baudrate::B1500000,
    profirust::Baudrate::B12000000,
    profirust::Baudrate::B31250,
    profirust::Baudrate::B45450,
    profirust::Baudrate::B93750,
    profirust::Baudrate::B187500,
    profirust::Baudrate::B3000000,
    profirust::Baudrate::B6000000,
];

pub fn build_params(cfg: &RigCfg) -> profirust::fdl::Parameters {
    let mut b = ParametersBuilder::new(cfg.ts, BAUDS[cfg.baud as usize]);
    b.max_retry_limit(cfg.max_retry).min_tsdr(cfg.min_tsdr);
    if let Some(s) = cfg.slot_bits {
        b.slot_bits(s);
    }
    if let Some(w) = cfg.watchdog_ms {
        b.watchdog_timeout(Duration::from_millis(w));
    }
    b.build()
}

pub fn make_peripheral(p: &PeriphCfg) -> Peripheral<'static> {
    let options = PeripheralOptions {
        ident_number: p.ident,
        sync_mode: p.sync,
        freeze_mode: p.freeze,
        groups: p.groups,
        max_tsdr: 60,
        fail_safe: false,
        user_parameters: p.user_prm.as_deref().map(intern),
        config: p.config.as_deref().map(intern),
    };
    let per = Peripheral::new(p.addr, options, vec![0u8; p.in_len], vec![0u8; p.out_len]);
    match p.diag_buf {
        Some(n) => per.with_diag_buffer(vec![0u8; n]),
        None => per,
    }
}

pub fn make_master(cfg: &RigCfg) -> (DpMaster<'static>, Vec<PeripheralHandle>) {
    let mut dp = match cfg.fixed_slots {
        None => DpMaster::new(Vec::<PeripheralStorage<'static>>::new()),
        Some(n) => {
            let v: Vec<PeripheralStorage<'static>> = (0..n).map(|_| PeripheralStorage::default()).collect();
            // a fixed array is a *borrowed* slice for the master; leak it (bounded: one per rig)
            let s: &'static mut [PeripheralStorage<'static>] = Box::leak(v.into_boxed_slice());
            DpMaster::new(s)
        }
    };
    let mut handles = vec![];
    for p in &cfg.periphs {
        handles.push(dp.add(make_peripheral(p)));
    }
    if cfg.operate {
        dp.enter_operate();
    }
    (dp, handles)
}

/// What the master put on the wire in one `transmit_telegram` call.
#[derive(Clone, Debug, PartialEq, Eq)]
pub struct Sent {
    pub bytes: Vec<u8>,
    pub frame: rc::RFrame,
    pub expects_reply: Option<u8>,
}

pub struct Rig {
    pub cfg: RigCfg,
    pub fdl: FdlActiveStation,
    pub dp: DpMaster<'static>,
    pub handles: Vec<PeripheralHandle>,
    pub now_us: i64,
}

impl Rig {
    pub fn new(cfg: &RigCfg) -> Self {
        let params = build_params(cfg);
        let fdl = FdlActiveStation::new(params);
        let (dp, handles) = make_master(cfg);
        Rig { cfg: cfg.clone(), fdl, dp, handles, now_us: 1000 + cfg.origin_us }
    }

    pub fn now(&self) -> Instant {
        Instant::from_micros(self.now_us)
    }

    pub fn advance(&mut self, us: i64) {
        self.now_us += us;
    }

    pub fn slot_us(&self) -> i64 {
        self.fdl.parameters().slot_time().total_micros() as i64
    }

    /// One `transmit_telegram` callback. None = the master declines (end of its turn).
    pub fn transmit(&mut self, high_prio_only: bool) -> Option<Sent> {
        let mut buf = [0u8; 256];
        let now = self.now();
        let r = self.dp.transmit_telegram(
            now,
            &self.fdl,
            TelegramTx::new(&mut buf),
            if high_prio_only { HighPrioOnly::Yes } else { HighPrioOnly::No },
        )?;
        let bytes = buf[..r.bytes_sent()].to_vec();
        let frame = match rc::decode(&bytes) {
            rc::RDec::Frame(f, n) if n == bytes.len() => f,
            other => panic!("HARNESS: master sent an undecodable frame {:02x?}: {:?}", bytes, other),
        };
        Some(Sent { bytes, frame, expects_reply: r.expects_reply() })
    }

    /// Would the FDL layer hand this reply to the application? (SC, or a response from the
    /// addressed station to this station)
    pub fn fdl_admits(&self, addr: u8, bytes: &[u8]) -> bool {
        match rc::decode(bytes) {
            rc::RDec::Frame(rc::RFrame::Sc, _) => true,
            rc::RDec::Frame(rc::RFrame::Data { da, sa, fc, .. }, _) => sa == addr && da == self.cfg.ts && fc & 0x40 == 0 && rc::fc_known(fc),
            _ => false,
        }
    }

    /// Deliver reply bytes through the real decoder into `receive_reply`.
    pub fn reply(&mut self, addr: u8, bytes: &[u8]) {
        let now = self.now();
        match Telegram::deserialize(bytes) {
            Some(Ok((t, _))) => self.dp.receive_reply(now, &self.fdl, addr, t),
            o => panic!("HARNESS: reply bytes do not decode: {:?}", o.map(|r| r.map(|x| x.1))),
        }
    }

    pub fn timeout(&mut self, addr: u8) {
        let now = self.now();
        self.dp.handle_timeout(now, &self.fdl, addr);
    }

    pub fn events(&mut self) -> DpEvents {
        self.dp.take_last_events()
    }

    pub fn periph(&mut self, i: usize) -> &mut Peripheral<'static> {
        let h = self.handles[i];
        self.dp.get_mut(h)
    }
}

// ------------------------------------------------------------------------------------------------
// Reference DP-V0 slave

#[derive(Clone, Copy, Debug, PartialEq, Eq, Hash)]
pub enum SlaveState {
    WaitPrm,
    WaitCfg,
    DataExch,
}

#[derive(Clone, Debug, PartialEq, Eq, Hash)]
pub struct RefSlave {
    pub addr: u8,
    pub ident: u16,
    pub cfg: Vec<u8>,
    pub in_len: usize,
    pub out_len: usize,
    pub state: SlaveState,
    /// frame count bit of the last accepted acknowledged request, per (single) master
    pub last_fcb: Option<bool>,
    pub last_resp: Option<Vec<u8>>,
    pub master: Option<u8>,
    pub prm_fault: bool,
    pub cfg_fault: bool,
    /// report Station_Not_Ready this many more times after configuration
    pub not_ready_left: u8,
    /// force a Prm_Req flag in the next diagnostics (transient fault report)
    pub force_prm_req: bool,
    pub ext_diag: Vec<u8>,
    pub diag_pending: bool,
    pub wd_on: bool,
    pub sync: bool,
    pub freeze: bool,
    pub inputs: Vec<u8>,
    pub outputs: Vec<u8>,
    pub input_counter: u8,
    /// statistics for oracles
    pub executed: u32,
    pub retransmissions_seen: u32,
}

#[derive(Clone, Debug, PartialEq, Eq)]
pub enum SlaveService {
    Diag,
    SetPrm,
    ChkCfg,
    DataExchange,
    GlobalControl,
    Other,
}

pub fn classify(req: &rc::RFrame) -> SlaveService {
    match req {
        rc::RFrame::Data { dsap: Some(60), .. } => SlaveService::Diag,
        rc::RFrame::Data { dsap: Some(61), .. } => SlaveService::SetPrm,
        rc::RFrame::Data { dsap: Some(62), .. } => SlaveService::ChkCfg,
        rc::RFrame::Data { dsap: Some(58), .. } => SlaveService::GlobalControl,
        rc::RFrame::Data { dsap: None, ssap: None, .. } => SlaveService::DataExchange,
        _ => SlaveService::Other,
    }
}

impl RefSlave {
    pub fn new(p: &PeriphCfg) -> Self {
        RefSlave {
            addr: p.addr,
            ident: p.ident,
            cfg: p.config.clone().unwrap_or_default(),
            in_len: p.in_len,
            out_len: p.out_len,
            state: SlaveState::WaitPrm,
            last_fcb: None,
            last_resp: None,
            master: None,
            prm_fault: false,
            cfg_fault: false,
            not_ready_left: 0,
            force_prm_req: false,
            ext_diag: vec![],
            diag_pending: false,
            wd_on: false,
            sync: false,
            freeze: false,
            inputs: (0..p.in_len).map(|i| 0x40u8.wrapping_add(i as u8)).collect(),
            outputs: vec![0; p.out_len],
            input_counter: 0,
            executed: 0,
            retransmissions_seen: 0,
        }
    }

    pub fn power_cycle(&mut self) {
        let mut n = RefSlave::new(&PeriphCfg {
            addr: self.addr,
            ident: self.ident,
            sync: false,
            freeze: false,
            groups: 0,
            user_prm: None,
            config: Some(self.cfg.clone()),
            in_len: self.in_len,
            out_len: self.out_len,
            diag_buf: None,
        });
        n.executed = self.executed;
        n.retransmissions_seen = self.retransmissions_seen;
        *self = n;
    }

    pub fn diag_pdu(&self) -> Vec<u8> {
        let not_ready = self.state != SlaveState::DataExch || self.not_ready_left > 0;
        let prm_req = self.state == SlaveState::WaitPrm || self.force_prm_req;
        let mut b0 = 0u8;
        if not_ready {
            b0 |= 0x02;
        }
        if self.cfg_fault {
            b0 |= 0x04;
        }
        if !self.ext_diag.is_empty() {
            b0 |= 0x08;
        }
        if self.prm_fault {
            b0 |= 0x40;
        }
        let mut b1 = 0x04u8; // always one
        if prm_req {
            b1 |= 0x01;
        }
        if self.wd_on {
            b1 |= 0x08;
        }
        if self.freeze {
            b1 |= 0x10;
        }
        if self.sync {
            b1 |= 0x20;
        }
        let mut v = vec![b0, b1, 0x00, self.master.unwrap_or(255), (self.ident >> 8) as u8, self.ident as u8];
        v.extend_from_slice(&self.ext_diag);
        v
    }

    /// Execute a request addressed to this slave; returns the response bytes (None for SDN).
    pub fn handle(&mut self, req: &rc::RFrame) -> Option<Vec<u8>> {
        let (sa, fc, du, dsap, ssap) = match req {
            rc::RFrame::Data { da, sa, fc, du, dsap, ssap } if *da == self.addr || *da == 127 => (*sa, *fc, du.clone(), *dsap, *ssap),
            _ => return None,
        };
        if fc & 0x40 == 0 {
            return None; // not a request
        }
        let service = classify(req);
        if !req.req_expects_reply() {
            // SDN: Global_Control etc. — executed, never answered
            return None;
        }
        if fc & 0x8F == 9 {
            // FDL status request: answered by the FDL layer: slave, OK
            return Some(rc::encode(&rc::RFrame::Data { da: sa, sa: self.addr, dsap: None, ssap: None, fc: 0x00, du: vec![] }));
        }
        let fcv = fc & 0x10 != 0;
        let fcb = fc & 0x20 != 0;
        if fcv {
            if self.last_fcb == Some(fcb) {
                // retransmission: resend the stored response, execute nothing
                self.retransmissions_seen += 1;
                if let Some(r) = &self.last_resp {
                    return Some(r.clone());
                }
            }
            self.last_fcb = Some(fcb);
        } else if fcb {
            // first message cycle: resynchronise
            self.last_fcb = Some(true);
        } else {
            self.last_fcb = None;
        }
        self.executed += 1;
        let resp: Vec<u8> = match service {
            SlaveService::Diag => {
                let pdu = self.diag_pdu();
                if self.not_ready_left > 0 && self.state == SlaveState::DataExch {
                    self.not_ready_left -= 1;
                }
                self.force_prm_req = false;
                self.diag_pending = false;
                rc::encode(&rc::RFrame::Data { da: sa, sa: self.addr, dsap: ssap, ssap: dsap, fc: 0x08, du: pdu })
            }
            SlaveService::SetPrm => {
                let owner_ok = self.master.is_none() || self.master == Some(sa);
                let valid = du.len() >= 7 && u16::from_be_bytes([du[4], du[5]]) == self.ident && du[0] & 0x80 != 0 && du[0] & 0x40 == 0;
                if !owner_ok {
                    // locked by another master: ignored at DP level
                } else if valid {
                    self.prm_fault = false;
                    self.master = Some(sa);
                    self.wd_on = du[0] & 0x08 != 0;
                    self.sync = du[0] & 0x20 != 0;
                    self.freeze = du[0] & 0x10 != 0;
                    if self.state == SlaveState::WaitPrm {
                        self.state = SlaveState::WaitCfg;
                    }
                } else {
                    self.prm_fault = true;
                    self.state = SlaveState::WaitPrm;
                }
                vec![rc::SC]
            }
            SlaveService::ChkCfg => {
                match self.state {
                    SlaveState::WaitPrm => {
                        // service not activated in this state
                        return self.finish(rc::encode(&rc::RFrame::Data { da: sa, sa: self.addr, dsap: None, ssap: None, fc: 0x03, du: vec![] }));
                    }
                    _ => {
                        if du == self.cfg {
                            self.cfg_fault = false;
                            self.state = SlaveState::DataExch;
                        } else {
                            self.cfg_fault = true;
                            self.state = SlaveState::WaitPrm;
                        }
                    }
                }
                vec![rc::SC]
            }
            SlaveService::DataExchange => {
                if self.state != SlaveState::DataExch || self.master != Some(sa) {
                    rc::encode(&rc::RFrame::Data { da: sa, sa: self.addr, dsap: None, ssap: None, fc: 0x03, du: vec![] })
                } else if du.len() != self.out_len {
                    // wrong output length: leave data exchange
                    self.state = SlaveState::WaitPrm;
                    rc::encode(&rc::RFrame::Data { da: sa, sa: self.addr, dsap: None, ssap: None, fc: 0x03, du: vec![] })
                } else {
                    self.outputs = du;
                    if self.in_len == 0 {
                        vec![rc::SC]
                    } else {
                        let fc = if self.diag_pending { 0x0A } else { 0x08 };
                        rc::encode(&rc::RFrame::Data { da: sa, sa: self.addr, dsap: None, ssap: None, fc, du: self.inputs.clone() })
                    }
                }
            }
            _ => rc::encode(&rc::RFrame::Data { da: sa, sa: self.addr, dsap: None, ssap: None, fc: 0x03, du: vec![] }),
        };
        self.finish(resp)
    }

    fn finish(&mut self, resp: Vec<u8>) -> Option<Vec<u8>> {
        self.last_resp = Some(resp.clone());
        Some(resp)
    }

    pub fn fingerprint_into(&self, out: &mut Vec<u8>) {
        out.push(self.state as u8);
        out.push(match self.last_fcb {
            None => 2,
            Some(b) => b as u8,
        });
        out.push(self.master.unwrap_or(255));
        out.push(self.prm_fault as u8 | (self.cfg_fault as u8) << 1 | (self.force_prm_req as u8) << 2 | (self.diag_pending as u8) << 3);
        out.push(self.not_ready_left);
        out.extend_from_slice(&(self.last_resp.as_ref().map(|r| crate::engine::fnv64(r)).unwrap_or(0)).to_le_bytes());
        out.extend_from_slice(&self.ext_diag);
        out.push(0xEE);
    }
}
