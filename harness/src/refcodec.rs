//! Reference PROFIBUS FDL frame codec, written from the frame format (IEC 61158-3/4 type 3),
//! independent of `profirust::fdl::telegram`.
//!
//! SD1  10 DA SA FC FCS 16                       (no data unit)
//! SD2  68 LE LEr 68 DA SA FC [DSAP] [SSAP] DU.. FCS 16   LE = 3 + #SAP + |DU|
//! SD3  A2 DA SA FC DU*8 FCS 16
//! SD4  DC DA SA                                (token)
//! SC   E5                                      (short confirmation)
//! FCS = sum(DA .. last DU byte) mod 256; bit 7 of DA / SA announces DSAP / SSAP.

pub const SD1: u8 = 0x10;
pub const SD2: u8 = 0x68;
pub const SD3: u8 = 0xA2;
pub const SD4: u8 = 0xDC;
pub const ED: u8 = 0x16;
pub const SC: u8 = 0xE5;

#[derive(Clone, Debug, PartialEq, Eq, Hash)]
pub enum RFrame {
    Token { da: u8, sa: u8 },
    Sc,
    Data {
        da: u8,
        sa: u8,
        dsap: Option<u8>,
        ssap: Option<u8>,
        fc: u8,
        du: Vec<u8>,
    },
}

impl RFrame {
    pub fn sa(&self) -> Option<u8> {
        match self {
            RFrame::Token { sa, .. } => Some(*sa),
            RFrame::Data { sa, .. } => Some(*sa),
            RFrame::Sc => None,
        }
    }
    pub fn da(&self) -> Option<u8> {
        match self {
            RFrame::Token { da, .. } => Some(*da),
            RFrame::Data { da, .. } => Some(*da),
            RFrame::Sc => None,
        }
    }
    pub fn is_token(&self) -> bool {
        matches!(self, RFrame::Token { .. })
    }
    pub fn fc(&self) -> Option<u8> {
        match self {
            RFrame::Data { fc, .. } => Some(*fc),
            _ => None,
        }
    }
    /// request bit (bit 6) set
    pub fn is_request(&self) -> bool {
        self.fc().map(|f| f & 0x40 != 0).unwrap_or(false)
    }
    pub fn is_response(&self) -> bool {
        self.fc().map(|f| f & 0x40 == 0).unwrap_or(false)
    }
    /// FDL status request: request, function 9
    pub fn is_fdl_status_req(&self) -> bool {
        self.fc().map(|f| f & 0x40 != 0 && f & 0x8F == 9).unwrap_or(false)
    }
    /// Does this request expect an immediate reply/ack? (SDN 4/6, time event 0 and clock value do not)
    pub fn req_expects_reply(&self) -> bool {
        match self.fc() {
            Some(f) if f & 0x40 != 0 => !matches!(f & 0x8F, 0 | 4 | 6 | 0x80),
            _ => false,
        }
    }
    pub fn short(&self) -> String {
        match self {
            RFrame::Token { da, sa } => format!("TOK {sa}->{da}"),
            RFrame::Sc => "SC".into(),
            RFrame::Data { da, sa, dsap, ssap, fc, du } => {
                format!("DATA {sa}->{da} fc={fc:02x} dsap={dsap:?} ssap={ssap:?} du[{}]", du.len())
            }
        }
    }
}

pub fn status_req(da: u8, sa: u8) -> RFrame {
    RFrame::Data { da, sa, dsap: None, ssap: None, fc: 0x49, du: vec![] }
}
/// station state: 0 slave, 1 master not ready, 2 master ready, 3 master in ring
pub fn status_resp(da: u8, sa: u8, st: u8) -> RFrame {
    RFrame::Data { da, sa, dsap: None, ssap: None, fc: (st & 3) << 4, du: vec![] }
}
pub fn token(da: u8, sa: u8) -> RFrame {
    RFrame::Token { da, sa }
}

pub fn encode(f: &RFrame) -> Vec<u8> {
    match f {
        RFrame::Token { da, sa } => vec![SD4, *da, *sa],
        RFrame::Sc => vec![SC],
        RFrame::Data { da, sa, dsap, ssap, fc, du } => {
            let mut body = vec![];
            body.push((*da & 0x7f) | if dsap.is_some() { 0x80 } else { 0 });
            body.push((*sa & 0x7f) | if ssap.is_some() { 0x80 } else { 0 });
            body.push(*fc);
            if let Some(d) = dsap {
                body.push(*d);
            }
            if let Some(s) = ssap {
                body.push(*s);
            }
            body.extend_from_slice(du);
            let le = body.len();
            assert!(le <= 255);
            let fcs = body.iter().fold(0u8, |a, b| a.wrapping_add(*b));
            let mut out = vec![];
            if le == 3 {
                out.push(SD1);
            } else if le == 11 {
                out.push(SD3);
            } else {
                out.extend_from_slice(&[SD2, le as u8, le as u8, SD2]);
            }
            out.extend_from_slice(&body);
            out.push(fcs);
            out.push(ED);
            out
        }
    }
}

#[derive(Clone, Debug, PartialEq, Eq)]
pub enum RDec {
    /// proper prefix of a frame of the announced length
    NeedMore,
    Invalid(&'static str),
    Frame(RFrame, usize),
}

/// Total length announced by the first bytes, if it can be known yet.
pub fn announced_len(b: &[u8]) -> Option<Result<usize, &'static str>> {
    if b.is_empty() {
        return None;
    }
    match b[0] {
        SC => Some(Ok(1)),
        SD4 => Some(Ok(3)),
        SD1 => Some(Ok(6)),
        SD3 => Some(Ok(14)),
        SD2 => {
            if b.len() < 3 {
                None
            } else if b[1] != b[2] {
                Some(Err("LE != LEr"))
            } else if b[1] < 3 {
                Some(Err("LE < 3"))
            } else {
                Some(Ok(b[1] as usize + 6))
            }
        }
        _ => Some(Err("unknown start delimiter")),
    }
}

pub fn decode(b: &[u8]) -> RDec {
    let total = match announced_len(b) {
        None => return RDec::NeedMore,
        Some(Err(e)) => return RDec::Invalid(e),
        Some(Ok(n)) => n,
    };
    if b.len() < total {
        // an SD2 whose second start delimiter is already visible and wrong is invalid right away
        if b[0] == SD2 && b.len() >= 4 && b[3] != SD2 {
            return RDec::Invalid("second start delimiter");
        }
        return RDec::NeedMore;
    }
    match b[0] {
        SC => RDec::Frame(RFrame::Sc, 1),
        SD4 => RDec::Frame(RFrame::Token { da: b[1], sa: b[2] }, 3),
        _ => {
            let body: &[u8] = match b[0] {
                SD1 => &b[1..4],
                SD3 => &b[1..12],
                _ => {
                    if b[3] != SD2 {
                        return RDec::Invalid("second start delimiter");
                    }
                    &b[4..4 + b[1] as usize]
                }
            };
            let fcs = b[total - 2];
            let ed = b[total - 1];
            if ed != ED {
                return RDec::Invalid("end delimiter");
            }
            if fcs != body.iter().fold(0u8, |a, x| a.wrapping_add(*x)) {
                return RDec::Invalid("checksum");
            }
            let has_dsap = body[0] & 0x80 != 0;
            let has_ssap = body[1] & 0x80 != 0;
            let mut i = 3;
            let need = has_dsap as usize + has_ssap as usize;
            if body.len() < 3 + need {
                return RDec::Invalid("address extension without SAP bytes");
            }
            let dsap = if has_dsap {
                i += 1;
                Some(body[i - 1])
            } else {
                None
            };
            let ssap = if has_ssap {
                i += 1;
                Some(body[i - 1])
            } else {
                None
            };
            RDec::Frame(
                RFrame::Data {
                    da: body[0] & 0x7f,
                    sa: body[1] & 0x7f,
                    dsap,
                    ssap,
                    fc: body[2],
                    du: body[i..].to_vec(),
                },
                total,
            )
        }
    }
}

/// Decode a byte stream into consecutive frames as a bus monitor would (used by trace monitors).
pub fn decode_all(mut b: &[u8]) -> Vec<Result<RFrame, Vec<u8>>> {
    let mut out = vec![];
    while !b.is_empty() {
        match decode(b) {
            RDec::Frame(f, n) => {
                out.push(Ok(f));
                b = &b[n..];
            }
            _ => {
                out.push(Err(b.to_vec()));
                break;
            }
        }
    }
    out
}

/// Is this function-code byte defined by the standard's tables (as far as this stack models them)?
pub fn fc_known(fc: u8) -> bool {
    if fc & 0x40 != 0 {
        matches!(fc & 0x8F, 0 | 0x80 | 3 | 4 | 5 | 6 | 7 | 9 | 12 | 13 | 14 | 15)
    } else {
        // response: bit 7 reserved, bits 5-4 station type, bits 3-0 status
        matches!(fc & 0x0F, 0 | 1 | 2 | 3 | 8 | 9 | 10 | 12 | 13)
    }
}

/// All 48 request + 36 response function code bytes (bit 7 clear for responses).
pub fn all_fc_bytes() -> Vec<u8> {
    let mut v = vec![];
    for req in [0x80u8, 0, 3, 4, 5, 6, 7, 9, 12, 13, 14, 15] {
        for fcvfcb in 0..4u8 {
            v.push(0x40 | req | (fcvfcb << 4));
        }
    }
    for st in 0..4u8 {
        for status in [0u8, 1, 2, 3, 8, 9, 10, 12, 13] {
            v.push((st << 4) | status);
        }
    }
    v
}
