//! World W2R — one real `FdlActiveStation` (with scripted probe applications) against a *reactive*
//! environment that plays the other ring members and the polled / addressed peers. The environment's
//! answers are the nondeterministic choices. Serves C12 (GAP maintenance) and C15 (applications).

use crate::bus::{BusSim, BIT};
use crate::engine::*;
use crate::refcodec as rc;
use crate::w2::BAUDS;
use profirust::fdl::{DataTelegramHeader, FdlActiveStation, FdlApplication, FrameCountBit, FunctionCode, HighPrioOnly, ParametersBuilder, RequestType, Telegram, TelegramTx, TelegramTxResponse};
use profirust::time::Instant;
use serde_json::{json, Value};
use std::sync::Arc;

#[derive(Clone, Copy, Debug, PartialEq, Eq)]
pub enum Step {
    Decline,
    Srd(u8),
    Sdn(u8),
    Status(u8),
}

#[derive(Clone, Debug, PartialEq, Eq)]
pub enum Call {
    Transmit { app: usize, sent: Option<Step>, hp: bool },
    Reply { app: usize, addr: u8, frame: rc::RFrame },
    Timeout { app: usize, addr: u8 },
}

thread_local! {
    static CALL_SEQ: std::cell::Cell<u64> = const { std::cell::Cell::new(0) };
}
fn next_seq() -> u64 {
    CALL_SEQ.with(|c| {
        let v = c.get() + 1;
        c.set(v);
        v
    })
}

#[derive(Clone, Debug)]
pub struct ScriptApp {
    pub idx: usize,
    pub script: Vec<Step>,
    pub pos: usize,
    pub log: Vec<Call>,
    /// global order of the calls across applications (same length as `log`)
    pub seq: Vec<u64>,
    pub fcb: bool,
}

impl FdlApplication for ScriptApp {
    fn transmit_telegram(&mut self, _now: Instant, fdl: &FdlActiveStation, tx: TelegramTx, hp: HighPrioOnly) -> Option<TelegramTxResponse> {
        let step = self.script.get(self.pos).copied().unwrap_or(Step::Decline);
        self.pos += 1;
        let sa = fdl.parameters().address;
        let r = match step {
            Step::Decline => None,
            Step::Srd(d) => {
                self.fcb = !self.fcb;
                Some(tx.send_data_telegram(DataTelegramHeader { da: d, sa, dsap: Some(60), ssap: Some(62), fc: FunctionCode::Request { fcb: if self.fcb { FrameCountBit::High } else { FrameCountBit::Low }, req: RequestType::SrdLow } }, 2, |b| b.copy_from_slice(&[self.idx as u8, 7])))
            }
            Step::Sdn(d) => Some(tx.send_data_telegram(DataTelegramHeader { da: d, sa, dsap: Some(58), ssap: Some(62), fc: FunctionCode::Request { fcb: FrameCountBit::Inactive, req: RequestType::SdnLow } }, 2, |b| b.fill(0))),
            Step::Status(d) => Some(tx.send_fdl_status_request(d, sa)),
        };
        self.log.push(Call::Transmit { app: self.idx, sent: if r.is_some() { Some(step) } else { None }, hp: hp == HighPrioOnly::Yes });
        self.seq.push(next_seq());
        r
    }
    fn receive_reply(&mut self, _now: Instant, _fdl: &FdlActiveStation, addr: u8, t: Telegram) {
        self.log.push(Call::Reply { app: self.idx, addr, frame: crate::props::c10::to_rframe(&t) });
        self.seq.push(next_seq());
    }
    fn handle_timeout(&mut self, _now: Instant, _fdl: &FdlActiveStation, addr: u8) {
        self.log.push(Call::Timeout { app: self.idx, addr });
        self.seq.push(next_seq());
    }
}

#[derive(Clone, Copy, Debug, PartialEq, Eq)]
pub enum RMon {
    C12,
    C15,
    /// no protocol monitor: only panics / hangs of the station are reported (C05)
    C05,
}

#[derive(Clone, Debug)]
pub struct RCfg {
    pub ts: u8,
    pub hsa: u8,
    pub gap_factor: u8,
    pub slot_bits: u16,
    pub ttr: Option<u32>,
    pub period_div: i64,
    /// addresses the environment plays as ring members from the start
    pub members0: Vec<u8>,
    pub scripts: Vec<Vec<Step>>,
    /// use poll() with `()` when there are no scripts and this is false
    pub multi: bool,
    pub mon: RMon,
    pub max_visits: u32,
    /// how many "joining" answers (ready / in ring) may be given on one path
    pub join_budget: u8,
    /// value of the station's clock at the start (microseconds)
    pub origin_us: i64,
    /// index into w2::BAUDS
    pub baud: u8,
}

impl RCfg {
    pub fn to_json(&self) -> Value {
        json!({"ts": self.ts, "hsa": self.hsa, "gap_factor": self.gap_factor, "slot_bits": self.slot_bits, "ttr": self.ttr, "period_div": self.period_div, "members0": self.members0,
            "scripts": self.scripts.iter().map(|s| s.iter().map(|x| format!("{:?}", x)).collect::<Vec<_>>()).collect::<Vec<_>>(), "multi": self.multi, "mon": format!("{:?}", self.mon), "max_visits": self.max_visits, "join_budget": self.join_budget, "origin_us": self.origin_us, "baud": self.baud})
    }
    pub fn from_json(v: &Value) -> RCfg {
        let step = |s: &str| -> Step {
            if s == "Decline" {
                return Step::Decline;
            }
            let n: u8 = s.trim_end_matches(')').split('(').nth(1).unwrap().parse().unwrap();
            match s.split('(').next().unwrap() {
                "Srd" => Step::Srd(n),
                "Sdn" => Step::Sdn(n),
                _ => Step::Status(n),
            }
        };
        RCfg {
            ts: v["ts"].as_u64().unwrap() as u8,
            hsa: v["hsa"].as_u64().unwrap() as u8,
            gap_factor: v["gap_factor"].as_u64().unwrap() as u8,
            slot_bits: v["slot_bits"].as_u64().unwrap() as u16,
            ttr: v["ttr"].as_u64().map(|x| x as u32),
            period_div: v["period_div"].as_i64().unwrap(),
            members0: v["members0"].as_array().unwrap().iter().map(|x| x.as_u64().unwrap() as u8).collect(),
            scripts: v["scripts"].as_array().unwrap().iter().map(|s| s.as_array().unwrap().iter().map(|x| step(x.as_str().unwrap())).collect()).collect(),
            multi: v["multi"].as_bool().unwrap(),
            mon: if v["mon"] == "C12" { RMon::C12 } else if v["mon"] == "C05" { RMon::C05 } else { RMon::C15 },
            max_visits: v["max_visits"].as_u64().unwrap() as u32,
            join_budget: v["join_budget"].as_u64().unwrap() as u8,
            origin_us: v["origin_us"].as_i64().unwrap_or(0),
            baud: v["baud"].as_u64().unwrap_or(1) as u8,
        }
    }
}

/// the environment's answer to a request of the station
#[derive(Clone, Copy, Debug, PartialEq, Eq)]
pub enum Ans {
    Silence,
    NotReady,
    Ready,
    InRing,
    Slave,
    /// the poll stays unanswered; meanwhile a station between TS and the polled address has entered the ring
    /// by other means — the station learns it from a witnessed token pass of that station
    SilentAndJoinBehind,
    /// the poll stays unanswered; the ring member that gets the token next accepts it (one transmission)
    /// and then dies: the token is lost, the station has to claim a new one after its time-out
    SilentAndTokenLost,
    // C15: peers of application requests
    Correct,
    Sc,
    Late,
    ForeignSource,
    ForeignDest,
    RequestInstead,
    TokenInstead,
}

pub const C12_ANSWERS: [Ans; 7] = [Ans::Silence, Ans::NotReady, Ans::Ready, Ans::InRing, Ans::Slave, Ans::SilentAndJoinBehind, Ans::SilentAndTokenLost];
pub const C15_ANSWERS: [Ans; 8] = [Ans::Correct, Ans::Silence, Ans::Sc, Ans::Late, Ans::ForeignSource, Ans::ForeignDest, Ans::RequestInstead, Ans::TokenInstead];

#[derive(Clone, Debug)]
pub struct Pending {
    pub addr: u8,
    pub req_end: i64, // scaled
    pub is_status: bool,
    pub from_app: bool,
}

#[derive(Clone, Debug, Default)]
pub struct C12Mon {
    pub visits: u32,
    pub polls_this_visit: u32,
    pub in_claim_scan: bool,
    pub scan_polled: Vec<u8>,
    /// addresses polled in the current sweep, in order
    pub sweep: Vec<u8>,
    pub visits_since_sweep_end: Option<u32>,
    /// per GAP address: visits since it was last polled
    pub since_polled: Vec<u32>,
    pub expect_next_token_to: Option<u8>,
    pub last_poll_addr: Option<u8>,
    /// the environment lost the token: the next (TS,TS) token is a claim, not a pass to itself
    pub token_lost: bool,
    pub last_pass_da: Option<u8>,
}

#[derive(Clone, Debug, Default)]
pub struct C15Mon {
    pub holding: bool,
    pub outstanding: Option<(usize, u8, bool)>, // (app, addr, callback seen)
    pub asked_this_visit: Vec<usize>,
    pub declined_this_visit: Vec<usize>,
    pub last_call_app: Option<(usize, bool)>, // (app, declined)
    pub expected_reply_kind: Option<Ans>,
    pub log_seen: Vec<usize>,
    /// an earlier answer left stray telegrams on the bus (late / foreign / request / token): from then on
    /// only the at-most-one clause is enforced
    pub disrupted: bool,
    pub own_tokens: u32,
    /// hold-time clause: a request was sent on a high-priority-only call in this visit (the one message
    /// cycle that is always allowed) / an ordinary call happened in this visit
    pub hp_sent_this_visit: bool,
    pub normal_call_this_visit: bool,
}

#[derive(Clone)]
pub struct RState {
    pub cfg: Arc<RCfg>,
    pub station: FdlActiveStation,
    pub apps: Vec<ScriptApp>,
    pub bus: BusSim,
    pub now: i64,
    pub p_us: i64,
    pub slot_us: i64,
    pub members: Vec<u8>,
    pub env_queue: Vec<(i64, Vec<u8>)>,
    pub pending: Option<Pending>,
    pub trace_seen: usize,
    pub dead: bool,
    pub finished: bool,
    pub history: Vec<u8>,
    pub joins: u8,
    /// a station that joined behind the sweep position: its first witnessed pass is still to come
    pub stray_next: Option<u8>,
    /// the next pass to a ring member is accepted by it, then it dies
    pub lose_next: bool,
    /// a ring member has passed the token to the station and supervises the pass like a conforming
    /// station: (passing member, time of the next repeat in µs, repeats so far)
    pub handover: Option<(u8, i64, u8)>,
    pub visits: u32,
    pub c12: C12Mon,
    pub c15: C15Mon,
    pub verbose: bool,
}

impl RState {
    pub fn new(cfg: &Arc<RCfg>, verbose: bool) -> RState {
        let mut b = ParametersBuilder::new(cfg.ts, BAUDS[cfg.baud as usize].0);
        b.slot_bits(cfg.slot_bits).highest_station_address(cfg.hsa).gap_wait_rotations(cfg.gap_factor);
        if let Some(t) = cfg.ttr {
            b.token_rotation_bits(t);
        }
        let params = b.build();
        let slot_us = params.slot_time().total_micros() as i64;
        let mut station = FdlActiveStation::new(params);
        station.set_online();
        let mut bus = BusSim::new(BAUDS[cfg.baud as usize].1, 2);
        bus.origin_us = cfg.origin_us;
        bus.retire_port(1);
        let mut members = cfg.members0.clone();
        members.sort();
        let n_gap = cfg.hsa as usize;
        let mut s = RState {
            cfg: cfg.clone(),
            station,
            apps: cfg.scripts.iter().enumerate().map(|(i, sc)| ScriptApp { idx: i, script: sc.clone(), pos: 0, log: vec![], seq: vec![], fcb: false }).collect(),
            bus,
            now: 0,
            p_us: (slot_us / cfg.period_div).max(1),
            slot_us,
            members,
            env_queue: vec![],
            pending: None,
            trace_seen: 0,
            dead: false,
            finished: false,
            history: vec![],
            joins: 0,
            stray_next: None,
            lose_next: false,
            handover: None,
            visits: 0,
            c12: C12Mon { since_polled: vec![0; n_gap], ..Default::default() },
            c15: C15Mon { log_seen: vec![0; cfg.scripts.len()], ..Default::default() },
            verbose,
        };
        if !s.members.is_empty() {
            s.env_initial();
        }
        s.run_until_choice();
        s
    }

    pub fn replay_json(&self) -> Value {
        json!({"world": "w2r", "cfg": self.cfg.to_json(), "answers": self.history})
    }

    fn report(&mut self, sig: &str, detail: String) {
        let pre = match self.cfg.mon { RMon::C12 => "c12", RMon::C15 => "c15", RMon::C05 => "c05.reactive" };
        ctx().violation(format!("{pre}.{sig}"), format!("{detail} [TS={} HSA={} G={} members0={:?} scripts={:?} answers so far {:?}]", self.cfg.ts, self.cfg.hsa, self.cfg.gap_factor, self.cfg.members0, self.cfg.scripts, self.history), self.replay_json(), self.history.len() as u64 + self.cfg.hsa as u64);
        self.dead = true;
    }

    /// cyclic successor of `a` in `ring`
    fn succ_in(ring: &[u8], a: u8) -> u8 {
        ring.iter().find(|x| **x > a).copied().unwrap_or(ring[0])
    }

    /// The member `holder` has the token at `from_us`: queue the passes that bring it back to the station.
    fn env_chain_to_station(&mut self, holder: u8, from_us: i64) {
        let mut ring = self.members.clone();
        ring.push(self.cfg.ts);
        ring.sort();
        let gap = self.bus.bits_us_floor(33) + 2;
        let tok_us = self.bus.bits_us_floor(33) + 1;
        let mut t = from_us;
        let mut h = holder;
        for _ in 0..ring.len() + 1 {
            let next = Self::succ_in(&ring, h);
            self.env_queue.push((t, rc::encode(&rc::token(next, h))));
            t += tok_us + gap;
            if next == self.cfg.ts {
                break;
            }
            h = next;
        }
    }

    /// Start-up with a running ring of `members`: three rotations, then the predecessor of the station
    /// polls it (GAP poll), waits a slot time and hands over the token.
    fn env_initial(&mut self) {
        let ring = self.members.clone();
        let ts = self.cfg.ts;
        let gap = self.bus.bits_us_floor(33) + 2;
        let tok_us = self.bus.bits_us_floor(33) + 1;
        let ps = ring.iter().rev().find(|a| **a < ts).copied().unwrap_or(*ring.last().unwrap());
        let mut t = 100;
        let mut h = ring[0];
        let mut passes = 0;
        loop {
            if passes >= 3 * ring.len() && h == ps {
                break;
            }
            let next = Self::succ_in(&ring, h);
            self.env_queue.push((t, rc::encode(&rc::token(next, h))));
            t += tok_us + gap;
            h = next;
            passes += 1;
        }
        self.env_queue.push((t, rc::encode(&rc::status_req(ts, ps))));
        t += self.bus.bits_us_floor(66) + self.slot_us + gap;
        self.env_queue.push((t, rc::encode(&rc::token(ts, ps))));
    }

    fn poll_once(&mut self) {
        // environment transmissions due up to this poll
        self.env_queue.sort_by_key(|e| e.0);
        while let Some((t, _)) = self.env_queue.first() {
            if *t > self.now + self.p_us {
                break;
            }
            let (t, bytes) = self.env_queue.remove(0);
            let t = t.max(self.bus.quiet_from_us() + self.bus.bits_us_floor(11) + 1).max(self.now);
            if self.verbose {
                println!("  {:>9} us  env    : {}", t, match rc::decode(&bytes) { rc::RDec::Frame(f, _) => f.short(), _ => hex(&bytes) });
            }
            if let rc::RDec::Frame(f, _) = rc::decode(&bytes) {
                self.on_env_frame(&f);
                if let rc::RFrame::Token { da, sa } = &f {
                    if *da == self.cfg.ts && *sa != self.cfg.ts && self.members.contains(sa) {
                        let tries = match self.handover {
                            Some((m, _, n)) if m == *sa => n,
                            _ => 0,
                        };
                        let end = t + self.bus.bits_us_floor(33) + 1;
                        self.handover = Some((*sa, end + self.slot_us + self.p_us, tries));
                    }
                }
            }
            self.bus.transmit(1, t, &bytes);
        }
        // the passing member repeats its pass (at most twice) when the station does not react
        if let Some((m, due, n)) = self.handover {
            if self.now >= due && self.env_queue.is_empty() {
                if n < 2 {
                    self.handover = Some((m, i64::MAX, n + 1));
                    self.env_queue.push((self.now, rc::encode(&rc::token(self.cfg.ts, m))));
                } else {
                    self.handover = None;
                }
            }
        }
        self.now += self.p_us;
        let now = Instant::from_micros(self.now + self.cfg.origin_us);
        let station = &mut self.station;
        let bus = &mut self.bus;
        let apps = &mut self.apps;
        let multi = self.cfg.multi;
        let r = catch(|| {
            let mut port = bus.port(0);
            if apps.is_empty() && !multi {
                station.poll(now, &mut port, &mut ())
            } else {
                let mut refs: Vec<&mut dyn FdlApplication> = apps.iter_mut().map(|a| a as &mut dyn FdlApplication).collect();
                station.poll_multi(now, &mut port, &mut refs)
            }
        });
        if let Err(p) = r {
            ctx().panics_cut.fetch_add(1, std::sync::atomic::Ordering::Relaxed);
            if self.cfg.mon == RMon::C12 && p.msg.contains("left != right") {
                self.report("polls_itself", format!("GAP poll of the own address (debug assertion): {}", p.msg));
            } else {
                let sig = format!("run_ended_by_{}", p.sig());
                self.report(&sig, format!("panic in poll: {}:{} {}", p.file, p.line, p.msg));
            }
            self.dead = true;
            return;
        }
        // application calls of this poll, then the transmissions of this poll
        if self.cfg.mon == RMon::C15 {
            self.c15_calls();
        }
        while self.trace_seen < self.bus.trace.len() {
            let tx = self.bus.trace[self.trace_seen].clone();
            self.trace_seen += 1;
            if tx.sender == 0 {
                self.on_station_tx(&tx);
                if self.dead {
                    return;
                }
            }
        }
        if self.bus.trace.len() > 512 {
            self.bus.trace.clear();
            self.trace_seen = 0;
        }
    }

    fn on_env_frame(&mut self, f: &rc::RFrame) {
        if let rc::RFrame::Token { da, sa } = f {
            if *da == self.cfg.ts && *sa != self.cfg.ts {
                // the station is given the token
                if self.cfg.mon == RMon::C15 {
                    self.c15.holding = true;
                    self.c15.asked_this_visit.clear();
                    self.c15.hp_sent_this_visit = false;
                    self.c15.normal_call_this_visit = false;
                    self.c15.declined_this_visit.clear();
                }
            }
        }
    }

    fn on_station_tx(&mut self, tx: &crate::bus::Tx) {
        let ts = self.cfg.ts;
        let f = match rc::decode(&tx.bytes) {
            rc::RDec::Frame(f, n) if n == tx.bytes.len() => f,
            _ => {
                self.report("undecodable_transmission", hex(&tx.bytes));
                return;
            }
        };
        if self.verbose {
            println!("  {:>9} us  station: {}", tx.start_us, f.short());
        }
        if !f.is_response() {
            // the station took the token
            self.handover = None;
        }
        match &f {
            rc::RFrame::Token { da, sa } if *sa == ts => {
                // a pass (or claim / keep)
                if self.cfg.mon == RMon::C12 {
                    self.c12_token(*da);
                }
                if self.cfg.mon == RMon::C15 {
                    self.c15_pass(*da);
                }
                if self.dead {
                    return;
                }
                if *da == ts {
                    self.visits += 1;
                    if self.cfg.mon == RMon::C15 {
                        self.c15.holding = true;
                        self.c15.asked_this_visit.clear();
                    self.c15.hp_sent_this_visit = false;
                    self.c15.normal_call_this_visit = false;
                        self.c15.declined_this_visit.clear();
                    }
                } else if self.members.contains(da) {
                    self.visits += 1;
                    // the environment takes the token and brings it back (a repeated pass is ignored:
                    // the chain is already queued)
                    if self.env_queue.is_empty() && self.lose_next {
                        // the member accepts the token (one GAP poll of its own to a non-TS address), then dies
                        self.lose_next = false;
                        let t = self.bus.us_ceil(tx.end) + self.bus.bits_us_floor(33) + 2;
                        let hsa = self.cfg.hsa;
                        let mut x = if *da + 1 >= hsa { 0 } else { *da + 1 };
                        if x == ts {
                            x = if x + 1 >= hsa { 0 } else { x + 1 };
                        }
                        self.env_queue.push((t, rc::encode(&rc::status_req(x, *da))));
                        let dead = *da;
                        self.members.retain(|m| *m != dead);
                        self.c12.token_lost = true;
                        ctx().witness("c12_token_lost_by_environment");
                    } else if self.env_queue.is_empty() {
                        let mut t = self.bus.us_ceil(tx.end) + self.bus.bits_us_floor(33) + 2;
                        if let Some(n) = self.stray_next.take() {
                            // the newcomer (which got a token by other means) passes it to its successor:
                            // this is the pass the station witnesses
                            self.env_queue.push((t, rc::encode(&rc::token(*da, n))));
                            t += 2 * self.bus.bits_us_floor(33) + 3;
                            self.members.push(n);
                            self.members.sort();
                            ctx().witness("c12_successor_learnt_from_witnessed_pass");
                        }
                        self.env_chain_to_station(*da, t);
                    } else {
                        self.visits -= 1;
                    }
                }
            }
            f if f.is_fdl_status_req() && f.sa() == Some(ts) => {
                let a = f.da().unwrap();
                let from_app = self.apps.iter().any(|ap| matches!(ap.log.last(), Some(Call::Transmit { sent: Some(Step::Status(d)), .. }) if *d == a)) && self.cfg.mon == RMon::C15;
                if self.cfg.mon == RMon::C12 {
                    self.c12_poll(a);
                    if self.dead {
                        return;
                    }
                }
                if self.members.contains(&a) {
                    // a ring member answers truthfully
                    let t = self.bus.us_ceil(tx.end + 11 * BIT) + 1;
                    self.env_queue.push((t, rc::encode(&rc::status_resp(ts, a, 3))));
                } else {
                    self.pending = Some(Pending { addr: a, req_end: tx.end, is_status: true, from_app });
                }
            }
            f if f.is_request() && f.sa() == Some(ts) => {
                if f.req_expects_reply() {
                    self.pending = Some(Pending { addr: f.da().unwrap(), req_end: tx.end, is_status: false, from_app: true });
                }
            }
            _ => {}
        }
    }

    pub fn answers(&self) -> &'static [Ans] {
        match &self.pending {
            Some(p) if p.is_status && !p.from_app => &C12_ANSWERS,
            Some(_) => &C15_ANSWERS,
            None => &[],
        }
    }

    /// Apply the environment's answer to the pending request, then run to the next choice.
    pub fn answer(&mut self, k: usize) -> bool {
        let p = match self.pending.take() {
            Some(p) => p,
            None => return false,
        };
        let alphabet = if p.is_status && !p.from_app { &C12_ANSWERS[..] } else { &C15_ANSWERS[..] };
        if k >= alphabet.len() {
            self.pending = Some(p);
            return false;
        }
        let ans = alphabet[k];
        let ts = self.cfg.ts;
        if matches!(ans, Ans::Ready | Ans::InRing | Ans::SilentAndJoinBehind | Ans::SilentAndTokenLost) {
            if self.joins >= self.cfg.join_budget {
                self.pending = Some(p);
                return false;
            }
            if ans == Ans::SilentAndJoinBehind {
                // needs: a ring member to pass the token to, and a free address strictly between TS and
                // the polled address
                let hsa = self.cfg.hsa;
                let mut a = if ts + 1 >= hsa { 0 } else { ts + 1 };
                let mut cand = None;
                while a != p.addr && a != ts {
                    if !self.members.contains(&a) {
                        cand = Some(a);
                        break;
                    }
                    a = if a + 1 >= hsa { 0 } else { a + 1 };
                }
                if cand.is_none() || self.members.is_empty() || !p.is_status || p.from_app {
                    self.pending = Some(p);
                    return false;
                }
                self.stray_next = cand;
            }
            if ans == Ans::SilentAndTokenLost {
                if self.members.is_empty() || !p.is_status || p.from_app || self.lose_next || self.c12.in_claim_scan {
                    self.pending = Some(p);
                    return false;
                }
                self.lose_next = true;
            }
            self.joins += 1;
        }
        self.history.push(k as u8);
        let t11 = self.bus.us_ceil(p.req_end + 11 * BIT) + 1;
        let late = self.bus.us_ceil(p.req_end) + self.slot_us + 3 * self.p_us;
        let stranger = if p.addr == 100 { 101 } else { 100 };
        let reply: Option<(i64, rc::RFrame)> = match ans {
            Ans::Silence | Ans::SilentAndJoinBehind | Ans::SilentAndTokenLost => None,
            Ans::NotReady => Some((t11, rc::status_resp(ts, p.addr, 1))),
            Ans::Ready => Some((t11, rc::status_resp(ts, p.addr, 2))),
            Ans::InRing => Some((t11, rc::status_resp(ts, p.addr, 3))),
            Ans::Slave => Some((t11, rc::status_resp(ts, p.addr, 0))),
            Ans::Correct => Some((t11, if p.is_status { rc::status_resp(ts, p.addr, 0) } else { rc::RFrame::Data { da: ts, sa: p.addr, dsap: Some(62), ssap: Some(60), fc: 0x08, du: vec![1, 2, 3] } })),
            Ans::Sc => Some((t11, rc::RFrame::Sc)),
            Ans::Late => Some((late, rc::RFrame::Data { da: ts, sa: p.addr, dsap: Some(62), ssap: Some(60), fc: 0x08, du: vec![9] })),
            Ans::ForeignSource => Some((t11, rc::RFrame::Data { da: ts, sa: stranger, dsap: Some(62), ssap: Some(60), fc: 0x08, du: vec![4] })),
            Ans::ForeignDest => Some((t11, rc::RFrame::Data { da: stranger, sa: p.addr, dsap: Some(62), ssap: Some(60), fc: 0x08, du: vec![5] })),
            Ans::RequestInstead => Some((t11, rc::RFrame::Data { da: ts, sa: p.addr, dsap: Some(60), ssap: Some(62), fc: 0x6D, du: vec![] })),
            Ans::TokenInstead => Some((t11, rc::token(ts, p.addr))),
        };
        if let Some((t, f)) = reply {
            self.env_queue.push((t, rc::encode(&f)));
        }
        if self.cfg.mon == RMon::C12 {
            if matches!(ans, Ans::Ready | Ans::InRing) {
                // the polled station becomes a ring member and must be the next to get the token
                self.members.push(p.addr);
                self.members.sort();
                self.c12.expect_next_token_to = Some(p.addr);
            }
        }
        if self.cfg.mon == RMon::C15 {
            self.c15.expected_reply_kind = Some(ans);
            if !matches!(ans, Ans::Correct | Ans::Silence | Ans::Sc) {
                self.c15.disrupted = true;
            }
        }
        self.run_until_choice();
        true
    }

    pub fn run_until_choice(&mut self) {
        let mut polls = 0u32;
        while self.pending.is_none() && !self.dead && !self.finished {
            self.poll_once();
            polls += 1;
            if self.visits >= self.cfg.max_visits {
                self.finished = true;
            }
            if polls > 60_000 {
                // nothing to decide any more (e.g. scripts exhausted): end of the run
                self.finished = true;
            }
        }
    }

    // ---- C12 ------------------------------------------------------------------------------------

    fn ref_gap(&self) -> Vec<u8> {
        // addresses strictly between TS and NS, cyclically below HSA
        let ts = self.cfg.ts;
        let hsa = self.cfg.hsa;
        let ns = self.station.inspect_token_ring().next_station();
        let mut v = vec![];
        let mut a = if ts + 1 >= hsa { 0 } else { ts + 1 };
        let mut guard = 0;
        while a != ts && a != ns && guard < 200 {
            v.push(a);
            a = if a + 1 >= hsa { 0 } else { a + 1 };
            guard += 1;
        }
        v
    }

    fn c12_poll(&mut self, a: u8) {
        let ts = self.cfg.ts;
        let ns = self.station.inspect_token_ring().next_station();
        let gap = self.ref_gap();
        if a == ts {
            self.report("polls_itself", "FDL status request to the own address".into());
            return;
        }
        if !gap.contains(&a) {
            self.report(if a == ns { "polls_successor" } else { "polls_outside_gap" }, format!("GAP poll of #{a} but NS={ns}, so the GAP is {gap:?}"));
            return;
        }
        let m = &mut self.c12;
        m.polls_this_visit += 1;
        if !m.in_claim_scan && m.polls_this_visit > 1 {
            let n = m.polls_this_visit;
            self.report("more_than_one_poll_per_visit", format!("{n} GAP polls in one token visit"));
            return;
        }
        // sweep order: ascending-cyclic, i.e. each polled address is the next GAP address after the previous one
        if let Some(prev) = m.last_poll_addr {
            if let (Some(ip), Some(ia)) = (gap.iter().position(|x| *x == prev), gap.iter().position(|x| *x == a)) {
                if ia != ip + 1 && ia != 0 {
                    self.report("sweep_order", format!("polled #{a} after #{prev} (GAP {gap:?})"));
                    return;
                }
            }
        }
        let m = &mut self.c12;
        if m.visits_since_sweep_end.is_some() && gap.first() == Some(&a) {
            // a new sweep starts: the pause must have been G .. G+2 visits
            let paused = m.visits_since_sweep_end.unwrap();
            let g = self.cfg.gap_factor as u32;
            if paused < g || paused > g + 2 {
                self.report("pause_between_sweeps", format!("{paused} token visits between two GAP sweeps (gap factor {g})"));
                return;
            }
            ctx().witness("c12_new_sweep_after_pause");
        }
        let m = &mut self.c12;
        m.visits_since_sweep_end = None;
        m.last_poll_addr = Some(a);
        m.sweep.push(a);
        if m.in_claim_scan {
            m.scan_polled.push(a);
        }
        if (a as usize) < m.since_polled.len() {
            m.since_polled[a as usize] = 0;
        }
        ctx().witness("c12_gap_poll");
    }

    fn c12_token(&mut self, da: u8) {
        let ts = self.cfg.ts;
        // repeated passes to a station that does not take the token are one visit, not several
        if da != ts && self.c12.last_pass_da == Some(da) && !self.members.contains(&da) && self.c12.expect_next_token_to != Some(da) {
            return;
        }
        self.c12.last_pass_da = Some(da);
        let first_claim = self.c12.visits == 0 && self.cfg.members0.is_empty();
        // a token to itself while the station believes in a successor other than itself cannot be an ordinary
        // pass: it is a claim after the silence time-out
        let claim_by_view = self.station.inspect_token_ring().next_station() != ts;
        if da == ts && !self.c12.in_claim_scan && (first_claim || self.c12.token_lost || claim_by_view) {
            // claim (sent twice): the post-claim scan follows
            if self.c12.token_lost {
                ctx().witness("c12_reclaim_after_token_loss");
            }
            self.c12.token_lost = false;
            self.c12.in_claim_scan = true;
            self.c12.scan_polled.clear();
            self.c12.polls_this_visit = 0;
            self.c12.last_poll_addr = None;
            self.c12.visits_since_sweep_end = None;
            self.c12.sweep.clear();
            return;
        }
        if self.c12.in_claim_scan {
            if da == ts && self.c12.scan_polled.is_empty() && self.c12.polls_this_visit == 0 {
                return; // second claim token
            }
            // first pass after the claim: the whole GAP (TS+1 .. NS-1, cyclically below HSA; everything when
            // the station is alone) must have been scanned; the scan ends early when a polled station
            // became the successor
            let mut expect: Vec<u8> = self.ref_gap();
            if let Some(x) = self.c12.expect_next_token_to {
                expect.push(x);
            }
            if self.c12.scan_polled != expect {
                let got = self.c12.scan_polled.clone();
                self.report("post_claim_scan_incomplete", format!("after claiming the token the station polled {got:?} before its first pass, expected {expect:?}"));
                return;
            }
            ctx().witness("c12_post_claim_scan_complete");
            self.c12.in_claim_scan = false;
            self.c12.last_poll_addr = None;
            self.c12.visits_since_sweep_end = Some(0);
        }
        // a responder that said ready / in ring gets the next token
        if let Some(x) = self.c12.expect_next_token_to.take() {
            if da != x {
                self.report("new_successor_not_given_the_token", format!("#{x} answered the GAP poll as a ready master but the next token goes to #{da}"));
                return;
            }
            ctx().witness("c12_new_successor_gets_token");
            // a sweep that found a new successor is over
            self.c12.last_poll_addr = None;
            self.c12.visits_since_sweep_end = Some(0);
        }
        // end of a token visit
        let gap = self.ref_gap();
        let g = self.cfg.gap_factor as u32;
        let m = &mut self.c12;
        m.visits += 1;
        if m.polls_this_visit == 0 {
            if let Some(v) = m.visits_since_sweep_end.as_mut() {
                *v += 1;
            }
        } else if m.last_poll_addr.is_some() && gap.last() == m.last_poll_addr.as_ref() {
            // the sweep reached the end of the GAP
            m.visits_since_sweep_end = Some(0);
            m.last_poll_addr = None;
        }
        m.polls_this_visit = 0;
        // bounded staleness: every GAP address polled at least once in any (G + 3 + |GAP|) visits
        let limit = g + 3 + gap.len() as u32 + 1;
        for a in &gap {
            let i = *a as usize;
            if i < m.since_polled.len() {
                m.since_polled[i] += 1;
                if m.since_polled[i] > limit {
                    let n = m.since_polled[i];
                    self.report("gap_address_not_polled", format!("#{a} is in the GAP {gap:?} but was not polled during {n} token visits (bound {limit})"));
                    return;
                }
            }
        }
        for i in 0..self.c12.since_polled.len() {
            if !gap.contains(&(i as u8)) {
                self.c12.since_polled[i] = 0;
            }
        }
    }

    // ---- C15 ------------------------------------------------------------------------------------

    fn c15_calls(&mut self) {
        let n = self.apps.len();
        let ts = self.cfg.ts;
        // merge the new calls of all applications in their global order
        let mut fresh: Vec<(u64, Call)> = vec![];
        for i in 0..n {
            while self.c15.log_seen[i] < self.apps[i].log.len() {
                let k = self.c15.log_seen[i];
                fresh.push((self.apps[i].seq[k], self.apps[i].log[k].clone()));
                self.c15.log_seen[i] += 1;
            }
        }
        fresh.sort_by_key(|x| x.0);
        {
            for (_, call) in fresh {
                match call {
                    Call::Transmit { app, sent, hp } => {
                        // "... or the hold time is over": a high-priority-only call means that the station
                        // itself considers the hold time over; then exactly one message cycle is still allowed
                        if !self.c15.disrupted {
                            if hp && self.c15.hp_sent_this_visit {
                                self.report("asked_again_after_hold_time", format!("application {app} asked (high priority only) although the one message cycle after the end of the hold time was already used in this token visit"));
                                return;
                            }
                            if hp && self.c15.normal_call_this_visit {
                                self.report("high_prio_cycle_after_ordinary_cycles", format!("application {app} asked with high priority only after ordinary message cycles in the same token visit"));
                                return;
                            }
                        }
                        if hp && sent.is_some() {
                            self.c15.hp_sent_this_visit = true;
                            ctx().witness("c15_high_prio_only_cycle");
                        }
                        if !hp {
                            self.c15.normal_call_this_visit = true;
                        }
                        if !self.c15.holding {
                            self.report("asked_without_token", format!("application {app} was asked for a telegram while the station does not hold the token"));
                            return;
                        }
                        if let Some((oa, addr, seen)) = self.c15.outstanding {
                            if !seen {
                                // a foreign telegram may have made the station give up the request silently
                                let _ = (oa, addr);
                            }
                        }
                        if let Some((_, _, false)) = self.c15.outstanding {
                            // allowed only if the station dropped the request because of a foreign telegram
                            if matches!(self.c15.expected_reply_kind, Some(Ans::Correct | Ans::Silence | Ans::Sc | Ans::Late)) && !self.c15.disrupted {
                                self.report("asked_while_reply_outstanding", format!("application {app} asked for a new telegram although neither reply nor time-out was delivered for the previous request"));
                                return;
                            }
                        }
                        // round robin
                        if let Some((prev, declined)) = self.c15.last_call_app {
                            let expect = if declined { (prev + 1) % n } else { prev };
                            if app != expect {
                                self.report("round_robin_order", format!("application {app} asked, expected application {expect} (previous: {prev}, declined: {declined})"));
                                return;
                            }
                        }
                        if self.c15.declined_this_visit.len() >= n {
                            self.report("asked_after_all_declined", format!("application {app} asked although every application already declined in this token visit"));
                            return;
                        }
                        self.c15.last_call_app = Some((app, sent.is_none()));
                        self.c15.asked_this_visit.push(app);
                        if sent.is_none() {
                            self.c15.declined_this_visit.push(app);
                        }
                        self.c15.outstanding = match sent {
                            Some(Step::Srd(d)) | Some(Step::Status(d)) => Some((app, d, false)),
                            _ => None,
                        };
                        ctx().witness("c15_transmit_call");
                    }
                    Call::Reply { app, addr, frame } => {
                        match self.c15.outstanding {
                            Some((oa, oaddr, false)) if oa == app && oaddr == addr => {
                                self.c15.outstanding = Some((oa, oaddr, true));
                            }
                            o => {
                                self.report("unmatched_reply", format!("receive_reply(app {app}, addr {addr}) but the outstanding request is {o:?}"));
                                return;
                            }
                        }
                        let ok = match &frame {
                            rc::RFrame::Sc => true,
                            rc::RFrame::Data { da, sa, fc, .. } => *sa == addr && *da == ts && fc & 0x40 == 0,
                            _ => false,
                        };
                        if !ok {
                            self.report("foreign_telegram_delivered_as_reply", format!("application {app} received {} as reply from #{addr}", frame.short()));
                            return;
                        }
                        ctx().witness("c15_reply_delivered");
                    }
                    Call::Timeout { app, addr } => match self.c15.outstanding {
                        Some((oa, oaddr, false)) if oa == app && oaddr == addr => {
                            self.c15.outstanding = Some((oa, oaddr, true));
                            ctx().witness("c15_timeout_delivered");
                        }
                        o => {
                            self.report("unmatched_timeout", format!("handle_timeout(app {app}, addr {addr}) but the outstanding request is {o:?}"));
                            return;
                        }
                    },
                }
            }
        }
    }

    fn c15_pass(&mut self, da: u8) {
        let n = self.apps.len();
        if da != self.cfg.ts || true {
            // exactly-one clause: when the peer answered correctly or stayed silent, a callback must have happened
            if let Some((app, addr, false)) = self.c15.outstanding {
                if matches!(self.c15.expected_reply_kind, Some(Ans::Correct | Ans::Silence | Ans::Sc)) && !self.c15.disrupted {
                    self.report("request_without_reply_or_timeout", format!("token passed although application {app} got neither reply nor time-out for its request to #{addr}"));
                    return;
                }
            }
            self.c15.outstanding = None;
            // the token is passed when every application has declined once (or the hold time is over):
            // passing with an application that was never asked in this visit is only legal after the hold time
            self.c15.own_tokens += 1;
            // (the two claim tokens and the first pass after the post-claim scan are not preceded by a
            // token-use phase)
            let after_claim = self.cfg.members0.is_empty() && self.c15.own_tokens <= 3;
            if n > 0 && self.c15.holding && !after_claim && !self.c15.disrupted && self.c15.declined_this_visit.len() < n.min(1) && self.c15.asked_this_visit.is_empty() && self.cfg.ttr.is_none() {
                self.report("token_passed_without_asking", "token passed although no application was asked in this visit and the hold time cannot be over".into());
                return;
            }
            // ... and with some applications asked but not all of them: "the token is passed once every
            // application has declined once or the hold time is over" (found by a seeded change that served
            // only one application per token visit)
            if n > 1 && self.c15.holding && !after_claim && !self.c15.disrupted && self.cfg.ttr.is_none() && !self.c15.asked_this_visit.is_empty() && self.c15.declined_this_visit.len() < n {
                self.report("token_passed_before_every_application_declined", format!("token passed after {:?} declined; {} applications, the hold time cannot be over", self.c15.declined_this_visit, n));
                return;
            }
            self.c15.holding = da == self.cfg.ts;
            self.c15.asked_this_visit.clear();
                    self.c15.hp_sent_this_visit = false;
                    self.c15.normal_call_this_visit = false;
            self.c15.declined_this_visit.clear();
        }
    }

    pub fn fingerprint(&self) -> u64 {
        let mut b: Vec<u8> = Vec::with_capacity(256);
        let v = self.station.verif_view();
        let p = self.station.parameters();
        let tl = (p.token_lost_timeout().total_micros() as i64) + self.slot_us;
        let ttr = p.token_rotation_time().total_micros() as i64 + self.slot_us;
        b.extend_from_slice(v.state.as_bytes());
        b.extend_from_slice(v.gap_state.as_bytes());
        let snow = self.now + self.cfg.origin_us; // the station's clock
        let age = |t: Option<Instant>, sat: i64| -> i64 { t.map(|t| (snow - t.total_micros()).clamp(-sat, sat)).unwrap_or(i64::MIN) };
        b.extend_from_slice(&age(v.last_bus_activity, tl).to_le_bytes());
        b.extend_from_slice(&(v.pending_bytes as u32).to_le_bytes());
        b.extend_from_slice(&age(v.token_time, ttr).to_le_bytes());
        b.extend_from_slice(&age(Some(v.last_token_time), ttr).to_le_bytes());
        b.extend_from_slice(&(v.end_token_hold_time.total_micros() - snow).clamp(-1, ttr).to_le_bytes());
        b.extend_from_slice(&(v.next_application as u32).to_le_bytes());
        b.extend_from_slice(format!("{:?}{:?}", self.station.inspect_token_ring(), self.station.inspect_token_ring().verif_last_witnessed_sender()).as_bytes());
        self.bus.fingerprint_into(self.now, &mut b);
        b.extend_from_slice(format!("{:?}|{:?}|{:?}|{}|{}|{}", self.stray_next, self.members, self.pending.as_ref().map(|p| (p.addr, p.is_status, p.from_app, self.bus.scaled(self.now) - p.req_end)), self.joins, self.visits.min(self.cfg.max_visits), self.finished).as_bytes());
        b.extend_from_slice(format!("{}|{:?}", self.lose_next, self.handover.map(|(m, due, n)| (m, if due == i64::MAX { i64::MAX } else { due - self.now }, n))).as_bytes());
        for (t, q) in &self.env_queue {
            b.extend_from_slice(&(t - self.now).to_le_bytes());
            b.extend_from_slice(q);
        }
        for a in &self.apps {
            b.extend_from_slice(&(a.pos as u32).to_le_bytes());
            b.push(a.fcb as u8);
        }
        match self.cfg.mon {
            RMon::C05 => {}
            RMon::C12 => b.extend_from_slice(format!("{:?}", self.c12).as_bytes()),
            RMon::C15 => {
                let m = &self.c15;
                b.extend_from_slice(format!("{}{:?}{:?}{:?}{:?}{:?}", m.holding, m.outstanding, m.asked_this_visit, m.declined_this_visit, m.last_call_app, (m.expected_reply_kind, m.disrupted, m.own_tokens.min(4), m.hp_sent_this_visit, m.normal_call_this_visit)).as_bytes());
            }
        }
        fnv64(&b)
    }
}

pub struct RWorld {
    pub s: RState,
    pub fp: u64,
}

impl RWorld {
    pub fn init(cfg: &Arc<RCfg>) -> RWorld {
        let s = RState::new(cfg, false);
        let fp = s.fingerprint();
        RWorld { s, fp }
    }
}

impl World for RWorld {
    fn n_actions(&self) -> usize {
        if self.s.dead || self.s.finished {
            0
        } else {
            self.s.answers().len()
        }
    }
    fn step(&self, a: usize, _p: &[u16]) -> Option<Self> {
        let mut s = self.s.clone();
        let desc = {
            let mut j = s.replay_json();
            j["answers"].as_array_mut().unwrap().push(json!(a));
            j
        };
        let ok = guarded(move || desc.clone(), || s.answer(a));
        if !ok || s.dead {
            return None;
        }
        s.bus.gc_with_retired();
        s.bus.trace.clear();
        s.trace_seen = 0;
        let fp = s.fingerprint();
        Some(RWorld { s, fp })
    }
    fn fingerprint(&self) -> u64 {
        self.fp
    }
    fn describe_action(&self, a: usize) -> String {
        format!("{:?}", self.s.answers().get(a))
    }
}

pub fn replay(v: &Value) {
    let r = &v["replay"];
    let cfg = Arc::new(RCfg::from_json(&r["cfg"]));
    println!("configuration: {}", r["cfg"]);
    let mut s = RState::new(&cfg, true);
    for a in r["answers"].as_array().unwrap() {
        let k = a.as_u64().unwrap() as usize;
        println!("-- pending {:?}: environment answers {:?}", s.pending.as_ref().map(|p| (p.addr, p.is_status)), s.answers().get(k));
        if !s.answer(k) {
            println!("(answer not enabled)");
            break;
        }
        if s.dead {
            break;
        }
    }
    println!("final: dead={} finished={} visits={} members={:?} ring={:?}", s.dead, s.finished, s.visits, s.members, s.station.inspect_token_ring());
    for a in &s.apps {
        println!("app {} log: {:?}", a.idx, a.log);
    }
}
