//! Shared machinery: context, known findings, violation reporting, evidence, panic capture,
//! hang watchdog, and a level-synchronous parallel breadth-first explorer.

use rayon::prelude::*;
use serde_json::{json, Map, Value};
use std::collections::{BTreeMap, HashSet};
use std::sync::atomic::{AtomicBool, AtomicU64, Ordering};
use std::sync::{Mutex, OnceLock};
use std::time::Instant;

pub const VERIF_DIR: &str = "/verif";
/// Where KNOWN_FINDINGS.txt is read and evidence / replay files are written: /verif, unless the
/// development aid tools/rerun_seeded.sh runs the harness from a scratch copy (PBMC_VERIF_DIR).
pub fn verif_dir() -> String {
    std::env::var("PBMC_VERIF_DIR").unwrap_or_else(|_| VERIF_DIR.to_string())
}
/// Path prefix of the library under test in panic locations (/repo/ unless PBMC_REPO_DIR is set).
pub fn repo_prefix() -> String {
    format!("{}/", std::env::var("PBMC_REPO_DIR").unwrap_or_else(|_| "/repo".to_string()))
}

#[derive(Debug, Clone, Copy, PartialEq, Eq)]
pub enum Tier {
    Quick,
    Thorough,
}

impl Tier {
    pub fn name(self) -> &'static str {
        match self {
            Tier::Quick => "quick",
            Tier::Thorough => "thorough",
        }
    }
    pub fn pick<T>(self, q: T, t: T) -> T {
        match self {
            Tier::Quick => q,
            Tier::Thorough => t,
        }
    }
}

#[derive(Debug, Clone)]
pub struct Finding {
    pub sig: String,
    pub detail: String,
    pub replay: Value,
    /// smaller = simpler counterexample (kept when several have the same signature)
    pub weight: u64,
}

pub struct Ctx {
    pub prop: String,
    pub tier: Tier,
    pub seed: i64,
    pub start: Instant,
    known: Vec<(String, String)>, // (sig, text) for this property
    fixed: Vec<(String, String)>,
    violations: Mutex<BTreeMap<String, Finding>>,
    known_hits: Mutex<BTreeMap<String, (Finding, u64)>>,
    witnesses: Mutex<BTreeMap<String, u64>>,
    notes: Mutex<Vec<String>>,
    pub stop: AtomicBool,
    pub panics_cut: AtomicU64,
}

static CTX: OnceLock<Ctx> = OnceLock::new();

pub fn ctx() -> &'static Ctx {
    CTX.get().expect("ctx not initialised")
}

pub fn init_ctx(prop: &str, tier: Tier) -> &'static Ctx {
    let seed = std::env::var("VERIF_SEED")
        .ok()
        .and_then(|s| s.parse::<i64>().ok())
        .unwrap_or(0);
    let mut known = vec![];
    let mut fixed = vec![];
    let kf = std::fs::read_to_string(format!("{}/KNOWN_FINDINGS.txt", verif_dir())).unwrap_or_default();
    for line in kf.lines() {
        let line = line.trim();
        if line.is_empty() || line.starts_with('#') {
            continue;
        }
        let (kind, rest) = match line.split_once(':') {
            Some(x) => x,
            None => continue,
        };
        let mut p = None;
        let mut sig = None;
        for tok in rest.split_whitespace() {
            if let Some(v) = tok.strip_prefix("property=") {
                p = Some(v.to_string());
            } else if let Some(v) = tok.strip_prefix("sig=") {
                sig = Some(v.to_string());
            }
        }
        if let (Some(p), Some(sig)) = (p, sig) {
            if p == prop {
                match kind.trim() {
                    "finding" => known.push((sig, rest.trim().to_string())),
                    "fixed" => fixed.push((sig, rest.trim().to_string())),
                    _ => {}
                }
            }
        }
    }
    let c = Ctx {
        prop: prop.to_string(),
        tier,
        seed,
        start: Instant::now(),
        known,
        fixed,
        violations: Mutex::new(BTreeMap::new()),
        known_hits: Mutex::new(BTreeMap::new()),
        witnesses: Mutex::new(BTreeMap::new()),
        notes: Mutex::new(vec![]),
        stop: AtomicBool::new(false),
        panics_cut: AtomicU64::new(0),
    };
    let _ = CTX.set(c);
    install_panic_hook();
    start_watchdog();
    ctx()
}

impl Ctx {
    /// Report that the property was violated. Returns true if this is a *known* finding
    /// (exploration may continue), false for a new violation.
    pub fn report(&self, f: Finding) -> bool {
        if self.known.iter().any(|(s, _)| *s == f.sig) {
            let mut k = self.known_hits.lock().unwrap();
            let e = k.entry(f.sig.clone()).or_insert((f.clone(), 0));
            e.1 += 1;
            if f.weight < e.0.weight {
                e.0 = f;
            }
            true
        } else {
            let mut v = self.violations.lock().unwrap();
            match v.get_mut(&f.sig) {
                Some(old) => {
                    if f.weight < old.weight {
                        *old = f;
                    }
                }
                None => {
                    if v.len() >= 24 {
                        self.stop.store(true, Ordering::Relaxed);
                    } else {
                        v.insert(f.sig.clone(), f);
                    }
                }
            }
            false
        }
    }

    pub fn violation(&self, sig: impl Into<String>, detail: impl Into<String>, replay: Value, weight: u64) -> bool {
        self.report(Finding {
            sig: sig.into(),
            detail: detail.into(),
            replay,
            weight,
        })
    }

    pub fn witness(&self, name: &str) {
        let mut w = self.witnesses.lock().unwrap();
        *w.entry(name.to_string()).or_insert(0) += 1;
    }
    pub fn witness_n(&self, name: &str, n: u64) {
        if n == 0 {
            return;
        }
        let mut w = self.witnesses.lock().unwrap();
        *w.entry(name.to_string()).or_insert(0) += n;
    }
    pub fn witness_count(&self, name: &str) -> u64 {
        *self.witnesses.lock().unwrap().get(name).unwrap_or(&0)
    }
    pub fn note(&self, s: impl Into<String>) {
        self.notes.lock().unwrap().push(s.into());
    }
    pub fn should_stop(&self) -> bool {
        self.stop.load(Ordering::Relaxed)
    }
    pub fn violation_count(&self) -> usize {
        self.violations.lock().unwrap().len()
    }
    pub fn elapsed(&self) -> f64 {
        self.start.elapsed().as_secs_f64()
    }
}

/// Everything an evidence file needs that the property code measures.
#[derive(Default)]
pub struct Evidence {
    pub level: &'static str, // "model_checking" | "exploration" | "fault_enumeration"
    pub states: u64,
    pub transitions: u64,
    pub traces_validated: u64,
    pub evaluations: u64,
    pub distinct_nontrivial: u64,
    pub rule: String,
    pub samples: Vec<Value>,
    pub exhaustive: bool,
    pub bounds: Value,
    pub caps_hit: Vec<String>,
    pub distinct_outcomes: u64,
    pub extra: Map<String, Value>,
    pub assumptions: Vec<String>,
    pub required_witnesses: Vec<&'static str>,
}

pub fn machinery_failure(msg: &str) -> ! {
    println!("MACHINERY-FAILURE: {msg}");
    eprintln!("MACHINERY-FAILURE: {msg}");
    std::process::exit(2);
}

/// Write evidence + replay files, print the verdict lines, exit.
pub fn finish(ev: Evidence) -> ! {
    let c = ctx();
    let wall = c.elapsed();
    let violations = c.violations.lock().unwrap().clone();
    let known_hits = c.known_hits.lock().unwrap().clone();
    let witnesses = c.witnesses.lock().unwrap().clone();

    // Replay files for violations
    let dir = format!("{}/replays/{}", verif_dir(), c.prop);
    let _ = std::fs::create_dir_all(&dir);
    let mut vio_lines = vec![];
    for (i, (sig, f)) in violations.iter().enumerate() {
        let path = format!("{dir}/violation_{}_{}.json", c.tier.name(), i);
        let body = json!({
            "property": c.prop, "signature": sig, "detail": f.detail, "replay": f.replay,
            "how_to_replay": format!("cd /verif && ./check {} --replay {}", c.prop, path),
        });
        let _ = std::fs::write(&path, serde_json::to_string_pretty(&body).unwrap());
        vio_lines.push((sig.clone(), f.detail.clone(), path));
    }
    // Replay files for known findings are refreshed too (stable names)
    for (sig, (f, _n)) in known_hits.iter() {
        let safe: String = sig.chars().map(|ch| if ch.is_ascii_alphanumeric() || ch == '.' || ch == '_' || ch == '-' { ch } else { '_' }).collect();
        let path = format!("{dir}/known_{safe}.json");
        let body = json!({"property": c.prop, "signature": sig, "detail": f.detail, "replay": f.replay});
        let _ = std::fs::write(&path, serde_json::to_string_pretty(&body).unwrap());
    }

    let mut missing = vec![];
    for w in &ev.required_witnesses {
        if witnesses.get(*w).copied().unwrap_or(0) == 0 {
            missing.push(*w);
        }
    }

    let mut cov = Map::new();
    cov.insert("states".into(), json!(ev.states.max(0)));
    cov.insert("transitions".into(), json!(ev.transitions));
    cov.insert("traces_validated_against_impl".into(), json!(ev.traces_validated));
    cov.insert("evaluations".into(), json!(ev.evaluations));
    cov.insert("distinct_nontrivial".into(), json!(ev.distinct_nontrivial));
    cov.insert("rule".into(), json!(ev.rule));
    cov.insert("samples".into(), Value::Array(ev.samples.clone()));
    cov.insert("exhaustive".into(), json!(ev.exhaustive && ev.caps_hit.is_empty()));
    cov.insert("bounds_completed".into(), ev.bounds.clone());
    cov.insert("caps_hit".into(), json!(ev.caps_hit));
    cov.insert("distinct_observed_outcomes".into(), json!(ev.distinct_outcomes));
    cov.insert("sometimes_witnesses".into(), json!(witnesses));
    cov.insert("branches_cut_by_panic".into(), json!(c.panics_cut.load(Ordering::Relaxed)));
    cov.insert(
        "known_findings_fired".into(),
        json!(known_hits.iter().map(|(s, (f, n))| json!({"sig": s, "hits": n, "example": f.detail})).collect::<Vec<_>>()),
    );
    cov.insert(
        "fixed_entries_still_checked".into(),
        json!(c.fixed.iter().map(|(s, _)| s.clone()).collect::<Vec<_>>()),
    );
    cov.insert("notes".into(), json!(*c.notes.lock().unwrap()));
    for (k, v) in ev.extra.iter() {
        cov.insert(k.clone(), v.clone());
    }
    let mut assumptions = ev.assumptions.clone();
    assumptions.push("64-bit fingerprints in visited sets: a collision could hide a state, never raise an alarm".into());
    assumptions.push("reference models (frame codec, DP slave, LAS/GAP, bit packer) are correct; they are independent of the code under test".into());
    let doc = json!({
        "property_id": c.prop,
        "tier": c.tier.name(),
        "seed": c.seed,
        "level": ev.level,
        "coverage": Value::Object(cov),
        "assumptions": assumptions,
        "wall_s": wall,
        "violations": violations.len(),
    });
    let _ = std::fs::create_dir_all(format!("{}/evidence", verif_dir()));
    let evpath = format!("{}/evidence/{}.json", verif_dir(), c.prop);
    std::fs::write(&evpath, serde_json::to_string_pretty(&doc).unwrap()).expect("write evidence");

    for (sig, (f, n)) in known_hits.iter() {
        println!("KNOWN-FINDING: property={} {} hits={} e.g. {}", c.prop, sig, n, f.detail);
    }
    println!(
        "SUMMARY property={} tier={} states={} transitions={} evaluations={} distinct_nontrivial={} validated={} wall={:.1}s caps={:?}",
        c.prop, c.tier.name(), ev.states, ev.transitions, ev.evaluations, ev.distinct_nontrivial, ev.traces_validated, wall, ev.caps_hit
    );
    if !vio_lines.is_empty() {
        for (sig, detail, path) in &vio_lines {
            println!("VIOLATION property={} replay={} sig={} :: {}", c.prop, path, sig, detail);
        }
        std::process::exit(1);
    }
    if !missing.is_empty() {
        machinery_failure(&format!("vacuous exploration: witnesses never seen: {missing:?}"));
    }
    println!("OK property={} held on everything explored", c.prop);
    std::process::exit(0);
}

// ------------------------------------------------------------------------------------------------
// Panic capture

thread_local! {
    static LAST_PANIC: std::cell::RefCell<Option<PanicInfo>> = const { std::cell::RefCell::new(None) };
    static CAPTURING: std::cell::Cell<bool> = const { std::cell::Cell::new(false) };
}

#[derive(Debug, Clone)]
pub struct PanicInfo {
    pub msg: String,
    pub file: String,
    pub line: u32,
}

impl PanicInfo {
    /// line-number-free signature: file + message prefix (digits replaced)
    pub fn sig(&self) -> String {
        let mut m: String = self.msg.chars().take(60).collect();
        m = m
            .chars()
            .map(|c| if c.is_ascii_digit() { '#' } else if c.is_whitespace() || c == '"' { '_' } else { c })
            .collect();
        while m.contains("##") {
            m = m.replace("##", "#");
        }
        let file = self.file.rsplit("/src/").next().unwrap_or(&self.file).to_string();
        format!("panic.{}.{}", file, m)
    }
}

fn install_panic_hook() {
    let default = std::panic::take_hook();
    std::panic::set_hook(Box::new(move |info| {
        let capturing = CAPTURING.with(|c| c.get());
        let msg = if let Some(s) = info.payload().downcast_ref::<&str>() {
            s.to_string()
        } else if let Some(s) = info.payload().downcast_ref::<String>() {
            s.clone()
        } else {
            "<non-string panic>".to_string()
        };
        let (file, line) = info.location().map(|l| (l.file().to_string(), l.line())).unwrap_or_default();
        if capturing {
            LAST_PANIC.with(|p| *p.borrow_mut() = Some(PanicInfo { msg, file, line }));
        } else {
            default(info);
            // Safety net: a panic that no `catch` of the harness guards. If it was raised inside the
            // library under test it is reported as a violation of the property being checked (the
            // execution it happened in belongs to that property's domain) with the panic as the
            // replay artefact; a panic raised in harness code is a machinery failure, never a verdict.
            if let Some(c) = CTX.get() {
                if file.starts_with(&repo_prefix()) {
                    let pi = PanicInfo { msg: msg.clone(), file: file.clone(), line };
                    let dir = format!("{}/replays/{}", verif_dir(), c.prop);
                    let _ = std::fs::create_dir_all(&dir);
                    let path = format!("{dir}/violation_{}_unguarded_panic.json", c.tier.name());
                    let sig = format!("{}.library_panic_outside_guard.{}", c.prop.to_lowercase(), pi.sig());
                    let body = json!({"property": c.prop, "signature": sig, "detail": format!("{file}:{line} {msg}"),
                        "replay": {"world": "panic", "file": file, "line": line, "message": msg, "backtrace": format!("{}", std::backtrace::Backtrace::force_capture())},
                        "how_to_replay": format!("cd /verif && ./check {} {}   (the panic is deterministic: same configuration, same place)", c.prop, c.tier.name())});
                    let _ = std::fs::write(&path, serde_json::to_string_pretty(&body).unwrap());
                    println!("VIOLATION property={} replay={} sig={} :: library panic outside any guard of the harness: {file}:{line} {msg}", c.prop, path, sig);
                    std::process::exit(1);
                } else {
                    println!("MACHINERY-FAILURE: harness panic at {file}:{line}: {msg}");
                    std::process::exit(2);
                }
            }
        }
    }));
}

/// Run `f`, capturing any panic (message and location).
pub fn catch<T>(f: impl FnOnce() -> T) -> Result<T, PanicInfo> {
    let prev = CAPTURING.with(|c| c.replace(true));
    let r = std::panic::catch_unwind(std::panic::AssertUnwindSafe(f));
    CAPTURING.with(|c| c.set(prev));
    match r {
        Ok(v) => Ok(v),
        Err(_) => Err(LAST_PANIC.with(|p| p.borrow_mut().take()).unwrap_or(PanicInfo {
            msg: "<unknown>".into(),
            file: String::new(),
            line: 0,
        })),
    }
}

// ------------------------------------------------------------------------------------------------
// Hang watchdog: every worker announces the case it is about to execute.

struct Heart {
    since: Option<Instant>,
    case: Option<Box<dyn Fn() -> Value + Send>>,
}

static HEARTS: OnceLock<Mutex<Vec<std::sync::Arc<Mutex<Heart>>>>> = OnceLock::new();
thread_local! {
    static MY_HEART: std::sync::Arc<Mutex<Heart>> = {
        let h = std::sync::Arc::new(Mutex::new(Heart{since: None, case: None}));
        HEARTS.get_or_init(|| Mutex::new(vec![])).lock().unwrap().push(h.clone());
        h
    };
}

pub const HANG_SECS: u64 = 20;

/// Run `f` under hang supervision. `describe` renders the case for the replay file if it hangs.
pub fn guarded<T>(describe: impl Fn() -> Value + Send + 'static, f: impl FnOnce() -> T) -> T {
    MY_HEART.with(|h| {
        let mut g = h.lock().unwrap();
        g.since = Some(Instant::now());
        g.case = Some(Box::new(describe));
    });
    let r = f();
    MY_HEART.with(|h| {
        let mut g = h.lock().unwrap();
        g.since = None;
        g.case = None;
    });
    r
}

fn start_watchdog() {
    std::thread::spawn(|| loop {
        std::thread::sleep(std::time::Duration::from_millis(500));
        let hearts = HEARTS.get_or_init(|| Mutex::new(vec![])).lock().unwrap().clone();
        for h in hearts {
            let g = h.lock().unwrap();
            if let Some(s) = g.since {
                if s.elapsed().as_secs() >= HANG_SECS {
                    let case = g.case.as_ref().map(|c| c()).unwrap_or(Value::Null);
                    let c = ctx();
                    let dir = format!("{}/replays/{}", verif_dir(), c.prop);
                    let _ = std::fs::create_dir_all(&dir);
                    let path = format!("{dir}/hang_{}.json", c.tier.name());
                    let body = json!({"property": c.prop, "signature": "hang", "detail": "a library call did not return within 20 s", "replay": case});
                    let _ = std::fs::write(&path, serde_json::to_string_pretty(&body).unwrap());
                    // minimal evidence so that the file exists; the run is a violation anyway
                    let doc = json!({
                        "property_id": c.prop, "tier": c.tier.name(), "seed": c.seed, "level": "exploration",
                        "coverage": {"evaluations": 1, "distinct_nontrivial": 2, "rule": "aborted by hang watchdog", "samples": [case], "exhaustive": false},
                        "wall_s": c.elapsed(), "violations": 1
                    });
                    let _ = std::fs::write(format!("{}/evidence/{}.json", verif_dir(), c.prop), serde_json::to_string_pretty(&doc).unwrap());
                    println!("VIOLATION property={} replay={} sig=hang :: library call did not return within {}s", c.prop, path, HANG_SECS);
                    std::process::exit(1);
                }
            }
        }
    });
}

// ------------------------------------------------------------------------------------------------
// Breadth-first explorer

pub trait World: Sized + Send + Sync {
    /// Number of actions in the (fixed, simplest-first) alphabet enabled in this state.
    fn n_actions(&self) -> usize;
    /// Fork this state and apply action `a`. `None` = terminal (panic / violation already reported / disabled).
    fn step(&self, a: usize, path: &[u16]) -> Option<Self>;
    fn fingerprint(&self) -> u64;
    fn describe_action(&self, a: usize) -> String;
}

pub struct Node<W> {
    pub w: W,
    pub path: Vec<u16>,
}

#[derive(Default, Debug, Clone)]
pub struct BfsStats {
    pub states: u64,
    pub transitions: u64,
    pub depth_completed: usize,
    pub closed: bool,
    pub capped: Option<String>,
    pub per_level: Vec<u64>,
    pub sample_paths: Vec<(Vec<u16>, u64)>,
    pub terminal: u64,
}

pub struct BfsOpts {
    pub max_depth: usize,
    pub max_states: u64,
    pub max_secs: f64,
}

/// Level-synchronous parallel BFS. Deterministic: successors are deduplicated in a canonical order.
pub fn bfs<W: World>(inits: Vec<W>, opts: &BfsOpts, mut on_level: impl FnMut(usize, &[Node<W>])) -> BfsStats {
    let c = ctx();
    let t0 = Instant::now();
    let mut visited: HashSet<u64> = HashSet::new();
    let mut frontier: Vec<Node<W>> = vec![];
    let mut st = BfsStats::default();
    for (i, w) in inits.into_iter().enumerate() {
        let fp = w.fingerprint();
        if visited.insert(fp) {
            frontier.push(Node { w, path: vec![60000 + i as u16] });
        }
    }
    st.states = frontier.len() as u64;
    st.per_level.push(st.states);
    for n in frontier.iter().take(50) {
        st.sample_paths.push((n.path.clone(), n.w.fingerprint()));
    }
    on_level(0, &frontier);
    let mut depth = 0;
    while !frontier.is_empty() && depth < opts.max_depth {
        if c.should_stop() {
            st.capped = Some("stopped after too many distinct violations".into());
            break;
        }
        if t0.elapsed().as_secs_f64() > opts.max_secs {
            st.capped = Some(format!("time cap {}s hit at depth {}", opts.max_secs, depth));
            break;
        }
        if st.states > opts.max_states {
            st.capped = Some(format!("state cap {} hit at depth {}", opts.max_states, depth));
            break;
        }
        let trans = AtomicU64::new(0);
        let term = AtomicU64::new(0);
        let mut next = Vec::new();
        let mut aborted = false;
        // the frontier is expanded in chunks so that time and state caps are honoured inside a level
        for chunk in frontier.chunks(2048) {
            if t0.elapsed().as_secs_f64() > opts.max_secs {
                st.capped = Some(format!("time cap {}s hit inside depth {} (completed depth {})", opts.max_secs, depth + 1, depth));
                aborted = true;
                break;
            }
            if st.states + next.len() as u64 > opts.max_states {
                st.capped = Some(format!("state cap {} hit inside depth {} (completed depth {})", opts.max_states, depth + 1, depth));
                aborted = true;
                break;
            }
            if c.should_stop() {
                st.capped = Some("stopped after too many distinct violations".into());
                aborted = true;
                break;
            }
            let mut succ: Vec<(u64, Node<W>)> = chunk
                .par_iter()
                .flat_map_iter(|n| {
                    let na = n.w.n_actions();
                    let mut out = Vec::with_capacity(na);
                    for a in 0..na {
                        trans.fetch_add(1, Ordering::Relaxed);
                        let mut p = n.path.clone();
                        p.push(a as u16);
                        match n.w.step(a, &p) {
                            Some(w2) => {
                                let fp = w2.fingerprint();
                                out.push((fp, Node { w: w2, path: p }));
                            }
                            None => {
                                term.fetch_add(1, Ordering::Relaxed);
                            }
                        }
                    }
                    out.into_iter()
                })
                .collect();
            // canonical order inside the chunk: by fingerprint then path → deterministic representative
            // (chunks are processed in frontier order, which is itself deterministic)
            succ.par_sort_unstable_by(|a, b| a.0.cmp(&b.0).then_with(|| a.1.path.cmp(&b.1.path)));
            for (fp, n) in succ {
                if visited.insert(fp) {
                    next.push(n);
                }
            }
        }
        st.transitions += trans.load(Ordering::Relaxed);
        st.terminal += term.load(Ordering::Relaxed);
        if aborted {
            // states discovered in the partial level are counted, the level is not "completed"
            st.states += next.len() as u64;
            st.per_level.push(next.len() as u64);
            on_level(depth + 1, &next);
            return st;
        }
        depth += 1;
        st.states += next.len() as u64;
        st.per_level.push(next.len() as u64);
        st.depth_completed = depth;
        // keep samples: first 50 of every level replace tail samples
        for n in next.iter().take(20) {
            if st.sample_paths.len() < 400 {
                st.sample_paths.push((n.path.clone(), n.w.fingerprint()));
            }
        }
        on_level(depth, &next);
        frontier = next;
    }
    if frontier.is_empty() {
        st.closed = true;
    }
    st
}

/// Re-execute recorded paths from fresh initial states; returns number validated. A mismatch is a
/// machinery failure (nondeterminism or an unsound clone).
pub fn validate_paths<W: World>(make_init: impl Fn(usize) -> W + Sync, paths: &[(Vec<u16>, u64)]) -> u64 {
    let ok = AtomicU64::new(0);
    paths.par_iter().for_each(|(path, fp)| {
        let init_idx = (path[0] - 60000) as usize;
        let mut w = make_init(init_idx);
        let mut good = true;
        for (i, a) in path[1..].iter().enumerate() {
            match w.step(*a as usize, &path[..i + 2]) {
                Some(n) => w = n,
                None => {
                    good = false;
                    break;
                }
            }
        }
        if good && w.fingerprint() == *fp {
            ok.fetch_add(1, Ordering::Relaxed);
        } else {
            machinery_failure(&format!("path re-execution diverged for path {:?} (step enabled: {}, fingerprint {:x} vs recorded {:x}, last action {})", path, good, w.fingerprint(), fp, path.last().map(|a| w.describe_action(*a as usize % w.n_actions().max(1))).unwrap_or_default()));
        }
    });
    ok.load(Ordering::Relaxed)
}

pub fn fnv64(bytes: &[u8]) -> u64 {
    // FNV-1a 64 with an extra avalanche
    let mut h: u64 = 0xcbf29ce484222325;
    for b in bytes {
        h ^= *b as u64;
        h = h.wrapping_mul(0x100000001b3);
    }
    h ^= h >> 32;
    h = h.wrapping_mul(0x9E3779B97F4A7C15);
    h ^ (h >> 29)
}

pub fn hex(b: &[u8]) -> String {
    b.iter().map(|x| format!("{x:02x}")).collect::<Vec<_>>().join(" ")
}

pub fn unhex(s: &str) -> Vec<u8> {
    s.split_whitespace().map(|x| u8::from_str_radix(x, 16).unwrap()).collect()
}

/// A logger that formats every record into a discarding sink (so that every argument's Debug/Display
/// implementation is executed on every path).
pub struct FormattingLogger;
impl log::Log for FormattingLogger {
    fn enabled(&self, _: &log::Metadata) -> bool {
        true
    }
    fn log(&self, record: &log::Record) {
        use std::fmt::Write;
        struct Sink(usize);
        impl std::fmt::Write for Sink {
            fn write_str(&mut self, s: &str) -> std::fmt::Result {
                self.0 += s.len();
                Ok(())
            }
        }
        let mut s = Sink(0);
        let _ = write!(s, "{}", record.args());
        std::hint::black_box(s.0);
    }
    fn flush(&self) {}
}
static FLOGGER: FormattingLogger = FormattingLogger;
pub fn enable_formatting_logger() {
    let _ = log::set_logger(&FLOGGER);
    log::set_max_level(log::LevelFilter::Trace);
}
pub fn set_log_level(l: log::LevelFilter) {
    let _ = log::set_logger(&FLOGGER);
    log::set_max_level(l);
}

/// Remove memory addresses that some Debug implementations (bitvec) print.
pub fn strip_addrs(s: String) -> String {
    let mut out = String::with_capacity(s.len());
    let mut rest = s.as_str();
    while let Some(i) = rest.find("addr: 0x") {
        out.push_str(&rest[..i]);
        let tail = &rest[i + 8..];
        let end = tail.find(|c: char| !c.is_ascii_hexdigit()).unwrap_or(tail.len());
        rest = &tail[end..];
    }
    out.push_str(rest);
    out
}
