#!/usr/bin/env python3
"""Mechanical mutation sweep against the quick checks (development aid, not a registered command).

Small syntactic mutants (operator flips, constant nudges, deleted statements, swapped accessors) of the core
source files are applied ONE AT A TIME to a scratch copy of /repo. A mutant that still compiles and passes the
library's own unit tests is then run against the quick checks of the properties its file belongs to (from a
scratch copy of the harness, evidence and replays diverted through PBMC_VERIF_DIR) until the first one reports a
VIOLATION. What no check reports is written down as a SURVIVOR: either an equivalent mutant (no observable
difference within any property) or a blind spot to look at by hand.

    tools/mutation_sweep.py <seed> <max mutants that pass the unit tests> [file-group ...]     log: /verif/MUTATION_SWEEP.md
"""
import os, random, re, subprocess, sys, time

S = os.environ.get('MS_DIR', '/tmp/ms')
GROUPS = {
    'fdl': (['src/fdl/active.rs', 'src/fdl/token_ring.rs', 'src/fdl/parameters.rs'], ['C12', 'C11', 'C15', 'C05', 'C01', 'C02', 'C13', 'C06']),
    'dp': (['src/dp/peripheral.rs', 'src/dp/master.rs', 'src/dp/peripheral_set.rs', 'src/dp/diagnostics.rs'], ['C03', 'C08', 'C07', 'C14', 'C17', 'C04', 'C05']),
    'apps': (['src/fdl/live_list.rs', 'src/dp/scan.rs'], ['C18', 'C05']),
    'codec': (['src/fdl/telegram.rs', 'src/phy/mod.rs'], ['C09', 'C10', 'C16', 'C05', 'C15']),
}
OPS = [(' == ', ' != '), (' != ', ' == '), (' >= ', ' > '), (' > ', ' >= '), (' <= ', ' < '), (' < ', ' <= '),
       (' && ', ' || '), (' || ', ' && '), ('true', 'false'), ('false', 'true'), (' + 1', ' + 2'), (' - 1', ' - 0'),
       (' + 1', ''), ('is_some()', 'is_none()'), ('is_none()', 'is_some()'), ('next_station()', 'previous_station()'),
       ('previous_station()', 'next_station()'), ('.sa', '.da'), ('.da', '.sa'), ('DoGap::No', 'DoGap::Yes'),
       ('DoGap::Yes', 'DoGap::No'), ('::First', '::Second'), ('saturating_sub', 'wrapping_sub'), ('.min(', '.max('),
       ('.max(', '.min('), ('retry_count = 0', 'retry_count = 1'), ('Some(', 'None.or(Some('), ('!self.', 'self.')]


def sh(cmd, timeout, env=None, cwd=None):
    try:
        r = subprocess.run(cmd, shell=True, capture_output=True, text=True, timeout=timeout, env=env, cwd=cwd)
        return r.returncode, r.stdout + r.stderr
    except subprocess.TimeoutExpired:
        return 124, 'timeout'


def main():
    seed = int(sys.argv[1]) if len(sys.argv) > 1 else 1
    budget = int(sys.argv[2]) if len(sys.argv) > 2 else 40
    groups = sys.argv[3:] or list(GROUPS)
    sh(f'rm -rf {S}; mkdir -p {S}; git -C /repo worktree prune; git -C /repo worktree add -q --detach {S}/repo HEAD', 120)
    sh(f'rsync -a --exclude target /verif/harness {S}/; cp /verif/KNOWN_FINDINGS.txt {S}/', 120)
    sh(f"sed -i 's#path = \"/repo\"#path = \"{S}/repo\"#; s#\"/repo/gsd-parser\"#\"{S}/repo/gsd-parser\"#' {S}/harness/Cargo.toml", 10)
    env = dict(os.environ, CARGO_NET_OFFLINE='true', RUST_BACKTRACE='0', PBMC_VERIF_DIR=S, PBMC_REPO_DIR=f'{S}/repo', CARGO_TARGET_DIR=f'{S}/target')
    cands = []
    for g in groups:
        files, checks = GROUPS[g]
        for f in files:
            lines = open(f'{S}/repo/{f}').read().split('\n')
            in_tests = False
            in_log = False
            for i, l in enumerate(lines):
                st = l.strip()
                if st.startswith('#[cfg(test)]') or st.startswith('mod tests') or st.startswith('mod test'):
                    in_tests = True
                # arguments of a (multi-line) log macro only change a message
                if st.startswith('log::') and not st.endswith(');'):
                    in_log = True
                    continue
                if in_log:
                    if st.endswith(');'):
                        in_log = False
                    continue
                if in_tests or st.startswith('//') or st.startswith('log::') or 'assert' in st or st.startswith('"') or 'verif' in st or st.startswith('#['):
                    continue
                for a, b in OPS:
                    for m in re.finditer(re.escape(a), l):
                        cands.append((g, f, i, l[:m.start()] + b + l[m.end():], 'op'))
                if st.endswith(';') and not st.startswith(('let ', 'return', 'use ', 'pub ', 'type ', 'const ')) and '(' in st and st.count('(') == st.count(')') and not st.endswith('};'):
                    cands.append((g, f, i, '', 'del'))
    random.seed(seed)
    random.shuffle(cands)
    out = open(os.environ.get('MS_OUT', '/verif/MUTATION_SWEEP.md'), 'a')
    out.write(f'\n## sweep seed {seed}, groups {groups}, /repo {sh("git -C /repo rev-parse --short HEAD", 10)[1].strip()}, /verif {sh("git -C /verif rev-parse --short HEAD", 10)[1].strip()}\n\n')
    out.write('| file:line | mutation | result |\n|---|---|---|\n')
    out.flush()
    done = 0
    for g, f, i, new, kind in cands:
        if done >= budget:
            break
        path = f'{S}/repo/{f}'
        src = open(path).read()
        lines = src.split('\n')
        old = lines[i]
        if new.strip() == old.strip():
            continue
        lines[i] = new
        open(path, 'w').write('\n'.join(lines))
        try:
            rc, o = sh('cargo test --offline --lib 2>&1 | tail -5', 600, env, f'{S}/repo')
            if 'test result: ok' not in o:
                continue  # does not compile, or killed by the repository's own unit tests: not interesting here
            done += 1
            rc, o = sh('cargo build --release --offline 2>&1 | tail -3', 900, env, f'{S}/harness')
            if rc != 0 and 'Finished' not in o:
                res = 'harness does not build against it'
            else:
                res = None
                for c in GROUPS[g][1]:
                    rc, o = sh(f'{S}/target/release/pbmc {c} quick', 400, env, f'{S}')
                    if rc == 1 and f'VIOLATION property={c} ' in o:
                        sig = re.search(r'sig=(\S+)', o)
                        res = f'caught by {c}: {sig.group(1) if sig else "?"}'
                        break
                    if rc not in (0, 1):
                        res = f'{c}: exit {rc} (machinery / timeout)'
                        break
                if res is None:
                    res = '**SURVIVOR** (all of ' + ' '.join(GROUPS[g][1]) + ' pass)'
            desc = f'`{old.strip()[:110]}` → `{new.strip()[:110] or "(statement deleted)"}`'
            out.write(f'| {f}:{i + 1} | {desc.replace("|", "¦")} | {res} |\n')
            out.flush()
            print(f'{f}:{i + 1} {kind}: {res}', flush=True)
        finally:
            open(path, 'w').write(src)
    sh(f'git -C /repo worktree remove --force {S}/repo; rm -rf {S}', 120)


if __name__ == '__main__':
    main()
