#!/bin/bash
# Regression over the "fixed:" entries of KNOWN_FINDINGS.txt: every repair commit of /repo is reverted in a
# SCRATCH copy of /repo (git apply -R of the commit's diff), and every quick check that the file names for it
# is run from a scratch copy of the harness; each must report a VIOLATION again ("a fixed entry suppresses
# nothing"). /repo and /verif/evidence are not touched.   Result: /verif/FIXED_REGRESSION.md
set -u
export CARGO_NET_OFFLINE=true RUST_BACKTRACE=0
S=${RS_DIR:-/tmp/rf}
rm -rf "$S"; mkdir -p "$S"
git -C /repo worktree prune
git -C /repo worktree add -q --detach "$S/repo" HEAD || exit 2
rsync -a --exclude target /verif/harness "$S/"
sed -i "s#path = \"/repo\"#path = \"$S/repo\"#; s#\"/repo/gsd-parser\"#\"$S/repo/gsd-parser\"#" "$S/harness/Cargo.toml"
cp /verif/KNOWN_FINDINGS.txt "$S/"
export PBMC_VERIF_DIR="$S" PBMC_REPO_DIR="$S/repo" CARGO_TARGET_DIR="$S/target"
tmp="$S/table.md"
echo "| repair | reverted | check | recorded signature | now |" > "$tmp"; echo "|---|---|---|---|---|" >> "$tmp"
bad=0; n=0
for sha in ${FIX_SHAS:-$(grep "^fixed:" /verif/KNOWN_FINDINGS.txt | awk "{print \$3}" | awk "!seen[\$0]++")}; do
  subj=$(git -C /repo log -1 --format=%s "$sha" | cut -c1-70)
  # tools/reverts/<sha>.diff: a hand-made patch that takes back the BEHAVIOUR of a repair whose plain revert
  # does not build any more (a later hook reads a field the repair introduced)
  if [ -f "/verif/tools/reverts/$sha.diff" ] && git -C "$S/repo" apply "/verif/tools/reverts/$sha.diff" 2>/dev/null; then how="behaviour only (tools/reverts/$sha.diff)"
  elif git -C /repo show "$sha" -- src gsd-parser/src | git -C "$S/repo" apply -R 2>/dev/null; then how="cleanly"
  elif git -C /repo show "$sha" -- src gsd-parser/src | git -C "$S/repo" apply -R --3way 2>/dev/null && ! git -C "$S/repo" diff --name-only --diff-filter=U | grep -q .; then how="3-way"
  else
    git -C "$S/repo" reset -q --hard HEAD
    echo "| \`$sha\` $subj | **cannot be reverted on its own** (later repairs build on the same lines) | - | - | - |" >> "$tmp"; continue
  fi
  if ! (cd "$S/harness" && cargo build --release --offline >"$S/build.log" 2>&1); then
    echo "| \`$sha\` $subj | $how, but the tree does not build | - | - | - |" >> "$tmp"; git -C "$S/repo" reset -q --hard HEAD; continue
  fi
  for c in $(grep '^fixed:' /verif/KNOWN_FINDINGS.txt | awk -v s="$sha" '$3==s {print $2}' | sed 's/property=//' | awk '!seen[$0]++'); do
    n=$((n+1))
    sigs=$(grep '^fixed:' /verif/KNOWN_FINDINGS.txt | awk -v s="$sha" -v c="property=$c" '$3==s && $2==c {print $4}' | sed 's/sig=//' | tr '\n' ' ')
    timeout 600 "$S/target/release/pbmc" "$c" quick > "$S/out.txt" 2>&1; rc=$?
    now=$(grep -o "sig=[^ ]*" "$S/out.txt" | sed 's/sig=//' | head -4 | tr '\n' ' ')
    if [ $rc = 1 ] && grep -q "^VIOLATION property=$c " "$S/out.txt"; then r="VIOLATION $now"; else r="**NOT REPORTED (exit $rc)**"; bad=$((bad+1)); fi
    echo "| \`$sha\` $subj | $how | $c quick | $sigs | $r |" >> "$tmp"
    echo "$sha $c: $r"
  done
  git -C "$S/repo" reset -q --hard HEAD
done
{ echo "# Repairs reverted one at a time, re-run against the current checks"; echo; echo "Produced by \`tools/rerun_fixed.sh\` on /verif $(git -C /verif rev-parse --short HEAD) (+ working tree), /repo $(git -C /repo rev-parse --short HEAD). $n check runs, $bad without a VIOLATION."; echo; cat "$tmp"; } > /verif/FIXED_REGRESSION.md
git -C /repo worktree remove --force "$S/repo"; rm -rf "$S"
echo "done: $n runs, $bad not reported -> /verif/FIXED_REGRESSION.md"
[ $bad = 0 ]
