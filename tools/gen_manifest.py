#!/usr/bin/env python3
"""Regenerates /verif/MANIFEST.json from the table below (kept in sync with DESIGN.md)."""
import json, subprocess

props = [json.loads(l) for l in open('/verif/properties.jsonl')]

# id -> (level, technique, text, note, design ref, has_thorough)
claimed = {
 "C09": ("exploration", "bounded exhaustive enumeration of telegram structures against an independent reference codec",
   "Every structural combination (addresses, SAP presence/values, all 84 function codes, boundary payload lengths, 4 payload patterns), all 65536 tokens, SC and all 256 function-code bytes are enumerated completely and encoded/decoded with the real codec; the oracle is an independent frame codec. Exhaustive over structure, not over payload contents.",
   "Trusted: reference codec in harness/src/refcodec.rs; payload contents limited to 4 patterns.", "6 C09"),
 "C10": ("exploration", "bounded exhaustive enumeration of byte strings and of all single-byte substitutions of valid frames",
   "All byte strings up to length 3, all strings up to length 6/7 over a 14-byte delimiter alphabet, all 2^24 SD2 headers with structured bodies, and every single-byte substitution of a set of valid frames are decoded by the real decoder; the clauses of the statement are checked on each verdict and on each string/prefix pair.",
   "Trusted: reference codec; NeedMore judged by announced length; longer random strings are not covered.", "6 C10"),
 "C16": ("model_checking", "exhaustive enumeration of chunkings (<=3 cut points) and 6 call policies (incl. declined transmissions between the receive calls) of the real receive helpers against a reference buffer model",
   "Every telegram sequence of length <=3 over 8 telegram kinds is delivered in every chunking with up to 3 cut points to the real receive_telegram / receive_all_telegrams / poll_pending_received_bytes helpers over three PHYs (byte queue, BusSim, the repository's SimulatorPhy); every call is compared with a reference buffer model, and the end-to-end sequence with what was sent.",
   "Trusted: reference codec/buffer model; pairs/triples of cuts restricted to header/tail/stride positions for long streams.", "6 C16"),
 "C17": ("exploration", "bounded exhaustive enumeration of diagnostics PDUs through the public DP path against a reference block parser",
   "All 2^16 flag words, all PDU lengths 0..244 x buffer sizes, all 1- and 2-byte extended-diagnostics strings and all sequences of <=3 catalogue blocks cut at every length are delivered through DpMaster::receive_reply (three peripheral states) and DpScanner; flags/ident/master address, the storage rule and the block iteration (incl. Debug formatting) are compared with a reference parser.",
   "Trusted: reference block parser; length-1 blocks accepted either way; permanent bit may be stripped.", "6 C17"),
 "C03": ("model_checking", "explicit-state BFS over the joint state of the real DpMaster and reference slaves under an adversarial environment, with a bring-up phase automaton as oracle",
   "Breadth-first search of the joint state space (real DpMaster + reference DP slaves + outstanding request + bring-up phase automaton) under all environment answers (answered, request/reply lost, token lost, power cycle, fault flags, 26 catalogue replies, user calls), deduplicated on a canonical fingerprint; plus an option grid that checks the Set_Prm/Chk_Cfg bytes against a reference encoding and all 65000 watchdog values.",
   "Trusted: reference slave and the emulated FDL reply admission; quick tier is depth-bounded (9 / 6), thorough runs to closure or cap.", "6 C03"),
 "C04": ("model_checking", "explicit-state BFS over real DpMaster x reference slave x process images for all boundary length pairs, images compared around every callback",
   "BFS for all 49 (output,input) length pairs from {0,1,2,8,9,243,244}^2 with user writes, input changes, lost replies and 14 malformed replies as transitions; pi_i/pi_q are read before and after every callback and compared with the wire bytes.",
   "Trusted: reference slave; payloads limited to 3-4 patterns; FDL-level admission (wrong source/destination) is covered by C15 under the real FDL.", "6 C04"),
 "C07": ("model_checking", "bounded liveness: fault-free and silence/return continuations executed from every state of the explicit-state BFS",
   "From every state the BFS of the C03 world discovers, two deterministic continuations run on the real master: fault-free (must reach running + DataExchanged within 12+4*(retry+1) requests per peripheral and stay) and silence-then-return of peripheral 0 (Offline, then Online, Configured, running).",
   "Trusted: reference slave incl. FCB retry detection; the bound B is from DESIGN 6 C07.", "6 C07"),
 "C08": ("model_checking", "explicit-state BFS with a per-destination frame-count-bit monitor as history variables",
   "BFS over the joint state incl. the per-destination FCB/retry monitor for max_retry_limit 1,2(,3,15) and 1..3 peripherals with user calls at every point, plus a narrow-alphabet loss-run world for EVERY admissible retry limit 1..15; the oracle reads only function-code bytes, SAPs and Offline events.",
   "Trusted: the notion of an 'acceptable reply' per service encoded in the monitor (diag: well-formed diag response; Set_Prm/Chk_Cfg: SC; Data_Exchange: OK/DL/DH of the configured length or SC).", "6 C08"),
 "C14": ("model_checking", "explicit-state BFS with cycle/turn monitor and life-cycle automata as history variables, events taken after every callback",
   "BFS for 0..4 peripherals in Vec and fixed[4] storage, global control once or every visit, high-priority-only visits, with lost/rejected replies, power cycles, long token absences and user calls; slot order, one turn per cycle, cycle_completed accounting and the event life-cycle vs is_live()/is_running() are checked at every callback; hangs by watchdog.",
   "Trusted: reference slave; sparse storage slots cannot be produced through the public API and are not generated.", "6 C14"),
 "C05": ("model_checking", "explicit-state BFS of a real FdlActiveStation (and of a real DpMaster) against an adversarial telegram alphabet, with a formatting logger, debug assertions and overflow checks on; hang watchdog",
   "Every symbol of an adversarial alphabet (~75: tokens between own/neighbour/stranger/invalid addresses, status requests and replies, SC, data requests/replies, garbage, truncated frames, collisions, waits, set_offline/set_online) is applied in every reachable state of the real station up to the depth bound, for several (TS,HSA,gap) configurations, base situations and application sets ((), LiveList, DpScanner, poll_multi with 2 and 0 apps); the DP master is explored in direct drive for 0..3 peripherals. Oracle: no panic (message+location), no hang (20 s watchdog), with a logger that formats every record.",
   "Depth-bounded (quick 3 / thorough 6 for the FDL worlds; coarse-poll burst worlds depth 2 / 4); DpMaster under a real FDL station is explored by re-execution with <=2 deviations from the conforming slave; PHY-level effects beyond BusSim are not modelled.", "6 C05"),
 "C11": ("model_checking", "explicit-state BFS of a real FdlActiveStation against an adversarial peer with a token hand-over monitor automaton",
   "BFS from four base situations (listening, two- and three-station ring, alone with the token) for TS in {3,0,HSA-1} and two poll grids over an alphabet of tokens between predecessor/successor/stranger/own/invalid addresses, status traffic, SC, a garbage byte and three silence lengths; the monitor justifies every initiated transmission (token from the registered predecessor, second offer, own claim), and checks the pass supervision (repeat only after a silent slot, at most two repeats, then removal; none after something was heard).",
   "Monitor leniencies documented in DESIGN 6 C11 (burst subtleties, undecodable bytes after a pass, claim timing belongs to C01).", "6 C11"),
 "C01": ("model_checking", "exhaustive enumeration of ring configurations x poll schedules (default + every placement of one poll stall) on real stations over a byte-accurate bus, with a trace monitor",
   "Every configuration of the small-scope domain (2..5 stations incl. adjacent, wrap-around, HSA-1, address 0; HSA, gap factor, baud, slot time, per-station poll period/phase patterns, application loads incl. 249-byte telegrams, target rotation times, late joiners at several offsets) is executed to the horizon on real FdlActiveStations over BusSim; on selected configurations every placement of a Tslot/4 poll stall at every effective poll is explored by forking the cloned world. The trace monitor checks R1 no overlap, R2 idle times (33 bit / 11 bit, 1 us tolerance) and R3 permission to transmit (holder, own retry after a silent slot, reply to a request addressed to the sender, claim after the own time-out).",
   "Excluded per DESIGN 5.3: unsynchronised cold-start claim race, stale PHY buffers. Schedules are grid-based (staggered and equal phases) with <=1 stall (thorough: 2 stalls on a few two-station configurations); BusSim is the timing reference.", "6 C01"),
 "C02": ("model_checking", "same execution space as C01 with a convergence/stability oracle, plus complete closure of the LAS bookkeeping state space with a from-anywhere differential oracle",
   "(a) every configuration/schedule of the C01 space without loads: by the bound T_conv of DESIGN 5.4 every online station is in the ring, every LAS equals the online set, NS/PS are the cyclic neighbours, tokens circulate in ascending order without repeats, and this stays true over the stability window (sampled every 3 slot times). (b) the real TokenRing type is closed under all witness/claim/set/remove operations over an 8-address universe for TS in {0,2,5} (672 states); neighbours invariant in every state, invalid addresses never change the state, and from EVERY reachable state three rotations of any of the 32 rings converge to exactly that ring.",
   "T_conv is a generous bound; the largest observed/bound ratio is reported in the evidence.", "6 C02"),
 "C18": ("model_checking", "explicit-state BFS over real LiveList / DpScanner state x reference population under all answer patterns at tracked addresses",
   "BFS over (application state, reference membership, loss budget, sweep) for scanner addresses {0,7,125}; at every probe of a tracked address {0,2,TS,TS+1,62,124,125 (thorough also TS-1,63)} the environment answers (live list: all four station types and non-OK status nibbles), is silent, loses the reply, or (DP scanner) sends one of 4 invalid replies; probe order 0..125, membership after every probe, exact Discovered/Found/Lost events and idents are compared with the reference; six populations are repeated under a real FdlActiveStation on BusSim.",
   "Only the tracked addresses vary; SC as reply to a status request is outside the alphabet.", "6 C18"),
 "C20": ("model_checking", "per-layout BFS over operation sequences of the real PrmBuilder against a reference bit packer",
   "All layouts of 1-2 fields from 12 data types at offsets {0,1} (shared bytes, overlapping multi-byte fields) over 4 constant backgrounds, with boundary defaults, min-max/enum constraints and text tables; all set_prm / set_prm_from_text sequences up to depth 3 (2 for pairs in quick) with boundary and out-of-range values, unknown names and texts; every resulting block is compared with a mask-merge big-endian reference packer, errors must leave the block unchanged.",
   "Known finding F9 (BitArea clobbers its byte) is reported as KNOWN-FINDING; invalid type descriptors are not generated.", "6 C20"),
 "C19": ("exploration", "bounded exhaustive enumeration of rendered GSD documents (templates x values x lexical variants), grammar-level mutations at every position, and all short token strings",
   "(a) every statement template with boundary hole values (and the dependency chains PrmText->ExtUserPrmData->Ref, Module->Slot, plus one full document) is rendered by an independent pretty-printer in the product of lexical variants (keyword case, '=' spacing, trailing/full-line comments, LF/CRLF, text before the marker incl. '#', line continuations) and the parsed description is compared field by field; (b) every number/string swap, numeric extreme, unknown data type, dangling reference and deleted '(' ')' '=' '-' or line at every position of the generated documents and of mock.gsd; (c) all token strings up to length 5/6 over 14 token classes and all 1-2 byte raw inputs. Oracle: never unwinds; (a) must be Ok and equal.",
   "Trusted: the independent pretty-printer / expected-value logic; long random texts are not covered.", "6 C19"),
 "C06": ("fault_enumeration", "exhaustive fault enumeration (every telegram x fault kind, every corruption window, bus cuts, every crash point x restart/partial-telegram variant, crash-then-fault pairs, claim race offsets; thorough: also every pair of faults on telegrams n and n+1..3) on snapshots of rings of real stations under staggered and equal poll schedules and two PHY models (collisions heard corrupted / not heard while transmitting)",
   "Per scenario a ring of real stations is brought up; from a snapshot every fault of the plan is applied once - drop / truncate / bit flips of EVERY telegram in a window of HSA+3 rotations, a 3-telegram garbling window at every position, a crash of every station at every effective poll (before / after incl. mid-transmission, with and without restart after 2 and 40 slot times), and the cold-start claim race - then the run continues fault-free for T_rec and is judged by the C02 ring predicate over the stability window and by the silence bound.",
   "One disturbance episode per execution (quick: one fault; thorough: also two-fault episodes on the Tslot/16 schedules); collisions are corrupted bytes in BusSim; T_rec from DESIGN 5.4.", "6 C06"),
 "C13": ("model_checking", "exhaustive enumeration of ring configurations (incl. lone stations) x application appetites x TTR x poll patterns incl. equal phases (plus every placement of one poll stall: quick on the explicit-TTR configurations of <=3 stations, thorough everywhere) with a trace oracle for hold time, rotation and starvation",
   "Rings of 1-4 real stations with applications that never / always / every third opportunity send SDN or SRD telegrams to passive responders answering after 11 bit, after Tslot-33 bit or never, for TTR in {256, 2000, default} and three poll patterns; on the trace: at most one application request starts after previous-receipt + TTR (+poll slack), consecutive token receipts are at most TTR + N*(cycle + GAP poll + pass) apart, every application is asked at least once per visit.",
   "Only evaluated once the ring is stable; configurations outside the latency envelope of DESIGN 5.5 are skipped.", "6 C13"),
 "C12": ("model_checking", "explicit-state BFS of a real FdlActiveStation against a reactive ring environment (GAP part) and an adversarial listener alphabet (reply part), each with a monitor automaton",
   "(1) For all (TS,HSA) with HSA 2..7 (thorough ..10, and 126), gap factors and initial ring-member sets of <=2, the environment plays the other ring members and answers every GAP poll of the real station with silence / not ready / ready / in ring / slave / silence while a station joins behind the sweep position / silence followed by the loss of the token at the next ring member (BFS over the answers, bounded number of joins and losses); the monitor checks every FDL status request against the reference GAP (never TS, never at or beyond NS), one poll per visit, complete post-claim scan, sweep order, pause of G..G+2 visits, bounded staleness, and that a ready responder gets the next token. (2) BFS over tokens of consistent and inconsistent rotations and status requests from predecessor / others: replies only to requests addressed to TS, within the slot time, 'not ready' until two identical rotations (repeated passes collapsed), 'ready' only to the registered predecessor, 'in ring' iff in the ring.",
   "The environment is conforming in part (2) (requesters leave the reply slot free) and ring members in part (1) supervise and repeat their token pass like real stations; join / token-loss budget 1/2 per path.", "6 C12"),
 "C15": ("model_checking", "explicit-state BFS of a real FdlActiveStation with scripted probe applications against a reactive environment choosing the peer's behaviour for every request",
   "All scripts up to length 2/3 over {decline, SRD, SDN, FDL status} for 1 application, all script pairs up to length 2 for 2, all triples of length <=1 for 3 applications (and poll_multi with none), in rings of 1..3 stations; for every request the environment answers correctly, with SC, late, from a foreign source, to a foreign destination, with a request, with a token, or not at all (thorough: scripts to length 4, up to 4 applications, 3 target rotation times, 2 poll periods). The oracle reads the call log of the applications and the bus trace: asked only while holding the token and with no reply outstanding, at most one reply/time-out per request on the sending application with the addressed station, exactly one for correct/silent peers (while no stray telegram is around), replies are SC or responses SA=addressed DA=TS, round-robin order, nobody asked after all declined.",
   "Call order across applications is reconstructed with a per-thread sequence counter in the probe applications.", "6 C15"),
}
not_applicable_reasons = {}

hook_commits = subprocess.run("git -C /repo log --format=%h --grep='^verif-hooks'", shell=True, capture_output=True, text=True).stdout.split()

checks = []
for pid, (level, technique, text, note, ref) in sorted(claimed.items()):
    checks.append({
      "property_id": pid,
      "quick_cmd": f"./check {pid} quick",
      "thorough_cmd": f"./check {pid} thorough",
      "evidence_file": f"/verif/evidence/{pid}.json",
      "replay_cmd_template": f"./check {pid} --replay {{path}}",
      "engine": "pbmc",
      "level_claimed": {"category": level, "text": text, "design_ref": "DESIGN.md section " + ref},
      "level_note": note,
      "technique": technique,
    })
m = {
 "version": 1,
 "setup_cmd": "cd /verif/harness && CARGO_NET_OFFLINE=true cargo build --release --offline",
 "hooks": {"guard": "cargo feature verif-hooks (off by default)",
           "enable": "harness/Cargo.toml depends on profirust by path with features [std, phy-simulator, verif-hooks]; every check rebuilds from /repo's working tree",
           "baseline_off_cmd": "cd /repo && cargo test --workspace --no-fail-fast --offline",
           "source_commits": hook_commits, "add_only": True},
 "engines": [{"name": "pbmc", "path": "/verif/harness", "serves_properties": sorted(claimed.keys()),
              "kind_free_text": "in-house explicit-state / bounded exhaustive explorer executing the real profirust code (Rust, rayon); stateright used as cross-check of state counts"}],
 "checks": checks,
 "notes": "See DESIGN.md. Known findings and fixed defects: KNOWN_FINDINGS.txt. Seeded property-breaking changes: seeded/.",
 "not_applicable": [{"property_id": p["id"], "reason": not_applicable_reasons.get(p["id"], "check under construction in this session (not yet claimed)")} for p in props if p["id"] not in claimed],
}
json.dump(m, open('/verif/MANIFEST.json', 'w'), indent=1)
print("claimed:", sorted(claimed.keys()))
