#!/bin/bash
# tools/try_mutant.sh <seed-id> <worktree> <demo-test-name> <check ids...>
# Confirms a seeded change (demo fails with / passes without, repo suite passes) and runs checks against it.
set -u
id=$1; wt=$2; demo=$3; shift 3
dst=/verif/seeded/$id
mkdir -p $dst
cp $wt/mutant.diff $dst/patch.diff
cp $wt/demo.rs $dst/demo.rs 2>/dev/null || cp $wt/tests/$demo.rs $dst/demo.rs
PKG=""; [ -f $wt/gsd-parser/tests/$demo.rs ] && PKG="-p gsd-parser"
cp $wt/REPORT.md $dst/REPORT_by_author.md 2>/dev/null
export CARGO_TARGET_DIR=$wt/target
cd $wt
# (git stash is shared between worktrees: never use it here) make sure exactly the author's patch is applied
git checkout -q -- src gsd-parser/src && git apply mutant.diff
echo "== demo WITH change (expected: FAIL)"
cargo test --offline $PKG --test $demo 2>&1 | grep -E "^test result|FAILED|panicked" | head -5
git checkout -q -- src gsd-parser/src
echo "== demo WITHOUT change (expected: ok)"
cargo test --offline $PKG --test $demo 2>&1 | grep -E "^test result" | head -3
git apply mutant.diff
unset CARGO_TARGET_DIR
echo "== repo suite with the change applied in /repo"
cd /repo && git apply $dst/patch.diff || { echo "APPLY FAILED"; exit 2; }
cargo test --workspace --no-fail-fast --offline 2>&1 | grep -E '^test result|FAILED|failed' | awk '/test result/{p+=$4; f+=$6} !/test result/{print} END {print p" passed "f" failed"}'
cd /verif
for c in "$@"; do
  echo "== ./check $c quick"
  ./check $c quick 2>&1 | grep -E "VIOLATION|OK |MACHINERY" | cut -c1-330 | head -4
done
git -C /repo checkout -- . && git -C /repo status --short | head -3
