#!/usr/bin/env python3
"""tools/gen_thorough_table.py <log> — turns the output of a sequential thorough pass
(=== Cxx / SUMMARY / OK|VIOLATION / Elapsed / Maximum resident lines) into THOROUGH_RUNS.md."""
import re, sys, json
log = open(sys.argv[1]).read().split("=== ")
rows = []
for blk in log[1:]:
    pid = blk.split()[0]
    m = re.search(r"SUMMARY property=\S+ tier=thorough states=(\d+) transitions=(\d+) evaluations=(\d+) distinct_nontrivial=(\d+) validated=(\d+) wall=([\d.]+)s caps=(.*)$", blk, re.M)
    verdict = "OK" if re.search(r"^OK property", blk, re.M) else ("VIOLATION" if "VIOLATION" in blk else ("MACHINERY" if "MACHINERY" in blk else "?"))
    known = len(re.findall(r"^KNOWN-FINDING", blk, re.M))
    rss = re.search(r"Maximum resident set size \(kbytes\): (\d+)", blk)
    if not m:
        rows.append((pid, "-", "-", "-", "-", "-", verdict, known, "-")); continue
    ncaps = len(re.findall(r"cap \d+", m.group(7))) + len(re.findall(r"time cap", m.group(7)))
    rows.append((pid, int(m.group(1)), int(m.group(2)), int(m.group(3)), int(m.group(5)), float(m.group(6)), verdict, known, f"{int(rss.group(1))//1024} MB" if rss else "-", ncaps))
rows.sort()
out = ["# Thorough tier — last complete sequential pass", "",
       "Produced by `tools/gen_thorough_table.py` from the log of one sequential run of `./check Cxx thorough` for all twenty",
       "properties on the otherwise idle 16-core sandbox (a `vp run` from the commit named below). States / transitions /",
       "evaluations are as defined in the `rule` field of each evidence file. A state cap cuts a level at the same node on every",
       "run (deterministic order), so capped worlds cover the same set every time.", ""]
out.append(f"Commit: `{sys.argv[2] if len(sys.argv) > 2 else '?'}`")
out.append("")
out.append("| property | states / executions | transitions / polls | evaluations | paths re-executed | wall s | RSS | worlds capped (state cap) | known findings printed | verdict |")
out.append("|---|---|---|---|---|---|---|---|---|---|")
for r in rows:
    if len(r) == 9:
        out.append(f"| {r[0]} | - | - | - | - | - | - | - | {r[7]} | {r[6]} |")
    else:
        out.append(f"| {r[0]} | {r[1]:,} | {r[2]:,} | {r[3]:,} | {r[4]:,} | {r[5]:.0f} | {r[8]} | {r[9]} | {r[7]} | {r[6]} |")
tot = sum(r[5] for r in rows if len(r) == 10)
out.append("")
out.append(f"Total wall time: {tot/60:.0f} min.")
open("/verif/THOROUGH_RUNS.md", "w").write("\n".join(out) + "\n")
print("\n".join(out[-len(rows)-4:]))
