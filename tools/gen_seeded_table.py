#!/usr/bin/env python3
"""Regenerates the table of seeded changes in DESIGN.md section 8 from seeded/*/meta.json."""
import json, glob, os, re
rows=[]
for f in sorted(glob.glob('/verif/seeded/*/meta.json')):
    m=json.load(open(f)); sid=os.path.basename(os.path.dirname(f))
    caught="; ".join(f"{k}: {v}" for k,v in m["caught_by"].items())
    rows.append(f"| `{sid}` | {m['property']} | {m['change']} | {m['needs']} | {caught} |")
table="<!-- SEEDED-BEGIN -->\n| seeded change | property | change | needs to manifest | checks |\n|---|---|---|---|---|\n"+"\n".join(rows)+"\n<!-- SEEDED-END -->"
s=open('/verif/DESIGN.md').read()
if 'SEEDED_TABLE' in s:
    s=s.replace('SEEDED_TABLE',table)
else:
    s=re.sub(r"<!-- SEEDED-BEGIN -->.*?<!-- SEEDED-END -->",lambda _:table,s,flags=re.S)
open('/verif/DESIGN.md','w').write(s)
print(len(rows),"rows")
