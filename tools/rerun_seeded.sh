#!/bin/bash
# Regression over ALL seeded changes: for every /verif/seeded/<id>/ apply patch.diff to a SCRATCH copy of
# /repo, run (from a scratch copy of the harness, writing evidence/replays into the scratch directory) every
# quick check that meta.json records as reporting a VIOLATION, and compare. /repo and /verif/evidence are
# never touched, so this can run next to other work.
#   tools/rerun_seeded.sh [id-prefix ...]        result table: /verif/SEEDED_REGRESSION.md
set -u
export CARGO_NET_OFFLINE=true RUST_BACKTRACE=0
S=${RS_DIR:-/tmp/rs}
rm -rf "$S"; mkdir -p "$S"
git -C /repo worktree prune
git -C /repo worktree add -q --detach "$S/repo" HEAD || exit 2
rsync -a --exclude target /verif/harness "$S/"
sed -i "s#path = \"/repo\"#path = \"$S/repo\"#; s#\"/repo/gsd-parser\"#\"$S/repo/gsd-parser\"#" "$S/harness/Cargo.toml"
cp /verif/KNOWN_FINDINGS.txt "$S/"
export PBMC_VERIF_DIR="$S" PBMC_REPO_DIR="$S/repo" CARGO_TARGET_DIR="$S/target"
out=${RS_OUT:-/verif/SEEDED_REGRESSION.md}
tmp="$S/table.md"
echo "| seeded change | check | expected | now |" > "$tmp"; echo "|---|---|---|---|" >> "$tmp"
bad=0; n=0
for d in /verif/seeded/*/; do
  id=$(basename "$d")
  if [ $# -gt 0 ]; then m=0; for p in "$@"; do case "$id" in $p*) m=1;; esac; done; [ $m = 1 ] || continue; fi
  checks=$(python3 - "$d/meta.json" <<'PY'
import json,re,sys
m=json.load(open(sys.argv[1]))
out=[]
for k,v in m.get("caught_by",{}).items():
    if str(v).startswith("VIOLATION"):
        for c in re.findall(r"C\d\d", k.split("(")[0]):
            if c not in out: out.append(c)
print(" ".join(out))
PY
)
  if [ -z "$checks" ]; then echo "| \`$id\` | - | not claimed by any check | - |" >> "$tmp"; continue; fi
  if ! git -C "$S/repo" apply "$d/patch.diff" 2>/dev/null; then echo "| \`$id\` | - | - | **PATCH DOES NOT APPLY** |" >> "$tmp"; bad=$((bad+1)); continue; fi
  if ! (cd "$S/harness" && cargo build --release --offline >"$S/build.log" 2>&1); then
    echo "| \`$id\` | - | - | **BUILD FAILED** |" >> "$tmp"; bad=$((bad+1)); git -C "$S/repo" checkout -q -- .; continue
  fi
  for c in $checks; do
    n=$((n+1))
    "$S/target/release/pbmc" "$c" quick > "$S/out.txt" 2>&1; rc=$?
    sig=$(grep -m1 -o "sig=[^ ]*" "$S/out.txt")
    if [ $rc = 1 ] && grep -q "^VIOLATION property=$c " "$S/out.txt"; then r="VIOLATION ${sig#sig=}"; else r="**NOT REPORTED (exit $rc)**"; bad=$((bad+1)); fi
    echo "| \`$id\` | $c quick | VIOLATION | $r |" >> "$tmp"
    echo "$id $c: $r"
  done
  git -C "$S/repo" checkout -q -- .
done
{ echo "# Seeded changes re-run against the current checks"; echo; echo "Produced by \`tools/rerun_seeded.sh\` on /verif $(git -C /verif rev-parse --short HEAD) (+ working tree), /repo $(git -C /repo rev-parse --short HEAD): every seeded change applied to a scratch copy of /repo, every quick check that its \`meta.json\` records as catching it run from a scratch copy of the harness. $n check runs, $bad not as recorded."; echo; cat "$tmp"; } > "$out"
git -C /repo worktree remove --force "$S/repo"; rm -rf "$S"
echo "done: $n runs, $bad not as recorded -> $out"
[ $bad = 0 ]
